// Canonical JSON of arbitrary runtime values (DESIGN.md appendix A.5).
import {
  isOn,
  normalizeClass,
  normalizeStyle,
  parseStringStyle,
  isVNode,
  Fragment,
  Text,
} from './vue-mock.mjs';

export function makeCanon(state, protocol) {
  const hints = !!protocol.hints;
  const slotCalls = protocol.slotCalls || 1;
  const seen = [];

  let fnDepth = 0;
  function fnTag(f) {
    const id = state.fnIds.get(f);
    const out = { $: 'fn', id: id === undefined ? 'anon' : id };
    if (protocol.callFunctions && fnDepth < 3) {
      // compare anonymous functions by what they return
      fnDepth++;
      try {
        const r = f();
        out.async = r instanceof Promise;
        out.ret = canon(r);
      } catch (e) {
        out.ret = canonError(e, 'call');
      }
      fnDepth--;
    }
    return out;
  }

  function canonSlots(children) {
    // children of a component host: slots object (or a function = default slot)
    const out = { $: 'slots', e: {} };
    const obj = typeof children === 'function' ? { default: children } : children;
    const keys = Object.keys(obj).sort();
    for (const k of keys) {
      const v = obj[k];
      if (k === '_') {
        if (hints) out._ = canon(v);
        continue;
      }
      if (k === '$stable') continue;
      if (typeof v === 'function') {
        let r;
        const results = [];
        for (let i = 0; i < slotCalls; i++) {
          state.trace.push('slot:' + k + ':enter');
          try {
            r = v();
            results.push(canon(r));
          } catch (e) {
            results.push(canonError(e, 'slot'));
          }
          state.trace.push('slot:' + k + ':leave');
        }
        const id = state.fnIds.get(v);
        out.e[k] = { $: 'slotfn', r: results.length === 1 ? results[0] : results };
        if (id !== undefined) out.e[k].id = id;
      } else {
        out.e[k] = canon(v);
      }
    }
    return out;
  }

  function canonProps(props) {
    if (props === null || props === undefined) return null;
    if (typeof props !== 'object') return canon(props);
    const out = {};
    const keys = Object.keys(props).sort();
    for (const k of keys) {
      let v = props[k];
      if (v === undefined) continue;
      if (k === 'class') {
        const c = normalizeClass(v);
        if (c) out[k] = c;
        continue;
      }
      if (k === 'style') {
        let s = normalizeStyle(v);
        if (typeof s === 'string') s = parseStringStyle(s);
        if (s !== undefined && s !== null) out[k] = canon(s);
        continue;
      }
      if (isOn(k)) {
        const list = (Array.isArray(v) ? v.flat(Infinity) : [v]).filter(
          (h) => h !== null && h !== undefined && h !== false,
        );
        if (list.length) out[k] = list.map(canon);
        continue;
      }
      out[k] = canon(v);
    }
    return out;
  }

  function canonType(t) {
    if (typeof t === 'string') return t;
    if (t === Fragment) return { $: 'Fragment' };
    if (t === Text) return { $: 'Text' };
    return canon(t);
  }

  function isComponentType(t) {
    // mirrors Vue's shapeFlag: string => element; Fragment/Text; KeepAlive and other objects
    // / functions => component
    return !(typeof t === 'string' || t === Fragment || t === Text);
  }

  function canonVNode(v) {
    if (v.type === Text) return { $: 't', v: canon(v.children) };
    const out = { $: 'v', type: canonType(v.type), props: canonProps(v.props) };
    const canonChildren = (ch) => {
      if (ch === null || ch === undefined) return null;
      if (Array.isArray(ch)) return ch.map(canon);
      if (typeof ch === 'function' || (typeof ch === 'object' && !isVNode(ch))) return canonSlots(ch);
      return canon(ch);
    };
    out.children = canonChildren(v.children);
    if (v.childrenAlts) {
      out.children = { $oneof: [out.children, ...v.childrenAlts.map(canonChildren)] };
    }
    if (v.dirs) {
      out.dirs = v.dirs.map((d) => {
        const mods = {};
        if (d.modifiers && typeof d.modifiers === 'object')
          for (const k of Object.keys(d.modifiers).sort()) mods[k] = canon(d.modifiers[k]);
        else if (d.modifiers !== undefined) mods.$raw = canon(d.modifiers);
        const dir =
          d.dirAlt && d.dirAlt.length
            ? { $oneof: [canon(d.dir), ...d.dirAlt.map(canon)] }
            : canon(d.dir);
        const arg =
          d.argAlt && d.argAlt.length
            ? { $oneof: [canon(d.arg), ...d.argAlt.map(canon)] }
            : canon(d.arg);
        return { dir, value: canon(d.value), arg, mods };
      });
    }
    if (hints) {
      out.pf = canon(v.pf);
      out.dp = canon(v.dp);
      // raw own keys of the props object (before class/style normalisation)
      out.pk = v.props && typeof v.props === 'object' ? Object.keys(v.props).sort() : [];
    }
    if (protocol.factory) out.factory = v.factory;
    return out;
  }

  function canonError(e, phase) {
    const kind = e && e.constructor && e.constructor.name ? e.constructor.name : typeof e;
    let msg = e && e.message ? String(e.message) : String(e);
    // normalise the parts of messages that legitimately differ between the two programs
    return { $: 'err', kind, phase, msg: msg.slice(0, 160) };
  }

  function canon(v) {
    if (v === undefined) return { $: 'u' };
    if (v === null) return null;
    const t = typeof v;
    if (t === 'string' || t === 'boolean') return v;
    if (t === 'number') {
      if (Number.isNaN(v)) return { $: 'nan' };
      if (!Number.isFinite(v)) return { $: 'inf', neg: v < 0 };
      if (Object.is(v, -0)) return { $: 'negzero' };
      return v;
    }
    if (t === 'bigint') return { $: 'big', v: String(v) };
    if (t === 'symbol') return { $: 'sym', d: v.description || '' };
    if (t === 'function') return fnTag(v);
    // objects
    if (v.$builtin) return { $: 'builtin', name: v.$builtin };
    if (v.$rc !== undefined) return { $: 'rc', name: v.$rc };
    if (v.$rd !== undefined) return { $: 'rd', name: v.$rd };
    const oid = state.objIds.get(v);
    if (oid !== undefined) return { $: 'ref', id: oid };
    if (seen.includes(v)) return { $: 'cycle' };
    seen.push(v);
    try {
      if (isVNode(v)) return canonVNode(v);
      if (Array.isArray(v)) {
        const out = [];
        for (let i = 0; i < v.length; i++) out.push(i in v ? canon(v[i]) : { $: 'hole' });
        return out;
      }
      if (v instanceof Error) return canonError(v, 'value');
      const proto = Object.getPrototypeOf(v);
      if (proto === Object.prototype || proto === null) {
        const e = [];
        for (const k of Object.keys(v).sort()) e.push([k, canon(v[k])]);
        return { $: 'o', e };
      }
      if (v instanceof RegExp) return { $: 're', s: String(v) };
      if (v instanceof Promise) return { $: 'promise' };
      return { $: 'obj', c: (v.constructor && v.constructor.name) || '?' };
    } finally {
      seen.pop();
    }
  }

  return { canon, canonError, canonProps, isComponentType };
}
