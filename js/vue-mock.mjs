// Mock of the parts of Vue 3's runtime the transformed code calls, written from Vue's
// documented algorithms (runtime-core / shared). One instance per evaluation: every call is
// recorded into `state`.

export const isArray = Array.isArray;
export const isString = (v) => typeof v === 'string';
export const isObject = (v) => v !== null && typeof v === 'object';
export const isFunction = (v) => typeof v === 'function';
export const isOn = (key) =>
  key.charCodeAt(0) === 111 /* o */ &&
  key.charCodeAt(1) === 110 /* n */ &&
  // uppercase letter
  (key.charCodeAt(2) > 122 || key.charCodeAt(2) < 97);

const listDelimiterRE = /;(?![^(]*\))/g;
const propertyDelimiterRE = /:([^]+)/;
const styleCommentRE = /\/\*[^]*?\*\//g;
export function parseStringStyle(cssText) {
  const ret = {};
  cssText
    .replace(styleCommentRE, '')
    .split(listDelimiterRE)
    .forEach((item) => {
      if (item) {
        const tmp = item.split(propertyDelimiterRE);
        tmp.length > 1 && (ret[tmp[0].trim()] = tmp[1].trim());
      }
    });
  return ret;
}

export function normalizeStyle(value) {
  if (isArray(value)) {
    const res = {};
    for (let i = 0; i < value.length; i++) {
      const item = value[i];
      const normalized = isString(item) ? parseStringStyle(item) : normalizeStyle(item);
      if (normalized) {
        for (const key in normalized) {
          res[key] = normalized[key];
        }
      }
    }
    return res;
  } else if (isString(value) || isObject(value)) {
    return value;
  }
}

export function normalizeClass(value) {
  let res = '';
  if (isString(value)) {
    res = value;
  } else if (isArray(value)) {
    for (let i = 0; i < value.length; i++) {
      const normalized = normalizeClass(value[i]);
      if (normalized) {
        res += normalized + ' ';
      }
    }
  } else if (isObject(value)) {
    for (const name in value) {
      if (value[name]) {
        res += name + ' ';
      }
    }
  }
  return res.trim();
}

export function mergeProps(...args) {
  const ret = {};
  for (let i = 0; i < args.length; i++) {
    const toMerge = args[i];
    for (const key in toMerge) {
      if (key === 'class') {
        if (ret.class !== toMerge.class) {
          ret.class = normalizeClass([ret.class, toMerge.class]);
        }
      } else if (key === 'style') {
        ret.style = normalizeStyle([ret.style, toMerge.style]);
      } else if (isOn(key)) {
        const existing = ret[key];
        const incoming = toMerge[key];
        if (
          incoming &&
          existing !== incoming &&
          !(isArray(existing) && existing.includes(incoming))
        ) {
          ret[key] = existing ? [].concat(existing, incoming) : incoming;
        }
      } else if (key !== '') {
        ret[key] = toMerge[key];
      }
    }
  }
  return ret;
}

export function transformOn(obj) {
  const result = {};
  Object.keys(obj).forEach((evt) => {
    result[`on${evt[0].toUpperCase()}${evt.slice(1)}`] = obj[evt];
  });
  return result;
}

export const Fragment = { $builtin: 'Fragment' };
export const Text = { $builtin: 'Text' };
export const KeepAlive = { $builtin: 'KeepAlive', __isKeepAlive: true };
export const vShow = { $builtin: 'vShow' };
export const vModelText = { $builtin: 'vModelText' };
export const vModelCheckbox = { $builtin: 'vModelCheckbox' };
export const vModelRadio = { $builtin: 'vModelRadio' };
export const vModelSelect = { $builtin: 'vModelSelect' };
export const vModelDynamic = { $builtin: 'vModelDynamic' };

export function isVNode(v) {
  return v ? v.__v_isVNode === true : false;
}

// Vue's runtime prop type assertion (componentProps.ts)
const simpleTypes = new Set(['String', 'Number', 'Boolean', 'Function', 'Symbol', 'BigInt']);
function getType(ctor) {
  if (ctor === null) return 'null';
  if (typeof ctor === 'function') return ctor.name || '';
  if (typeof ctor === 'object') {
    const name = ctor.constructor && ctor.constructor.name;
    return name || '';
  }
  return '';
}
export function assertType(value, type) {
  let valid;
  const expectedType = getType(type);
  if (expectedType === 'null') {
    valid = value === null;
  } else if (simpleTypes.has(expectedType)) {
    const t = typeof value;
    valid = t === expectedType.toLowerCase();
    // for primitive wrapper objects
    if (!valid && t === 'object') {
      valid = value instanceof type;
    }
  } else if (expectedType === 'Object') {
    valid = isObject(value);
  } else if (expectedType === 'Array') {
    valid = isArray(value);
  } else {
    valid = value instanceof type;
  }
  return { valid, expectedType };
}
// validateProp's type part: `type` absent/true/null => no check; undefined/null values of a
// non-required prop are skipped by the caller
export function validatePropType(value, type) {
  if (type == null || type === true) return true;
  const types = isArray(type) ? type : [type];
  if (types.length === 0) return false; // `type: []` accepts nothing
  for (const t of types) {
    if (assertType(value, t).valid) return true;
  }
  return false;
}

export function mergeDefaults(raw, defaults) {
  const props = isArray(raw)
    ? raw.reduce((normalized, p) => ((normalized[p] = null), normalized), {})
    : raw;
  for (const key in defaults) {
    if (key.startsWith('__skip')) continue;
    let opt = props[key];
    if (opt) {
      if (isArray(opt) || isFunction(opt)) {
        opt = props[key] = { type: opt, default: defaults[key] };
      } else {
        opt.default = defaults[key];
      }
    } else if (opt === null) {
      opt = props[key] = { default: defaults[key] };
    }
    if (opt && defaults[`__skip_${key}`]) {
      opt.skipFactory = true;
    }
  }
  return props;
}

export function makeVue(state) {
  const mkFactory = (name) =>
    function (type, props, children, patchFlag, dynamicProps) {
      const vnode = {
        __v_isVNode: true,
        type,
        props: props === undefined ? null : props,
        children: children === undefined ? null : children,
        pf: patchFlag,
        dp: dynamicProps,
        dirs: null,
        factory: name,
        nargs: arguments.length,
      };
      state.vnodes.push(vnode);
      return vnode;
    };
  const vue = {
    createVNode: mkFactory('createVNode'),
    createTextVNode(text = ' ', flag = 0) {
      const vnode = {
        __v_isVNode: true,
        type: Text,
        props: null,
        children: text,
        pf: flag || undefined,
        dp: undefined,
        dirs: null,
        factory: 'createTextVNode',
      };
      return vnode;
    },
    Fragment,
    Text,
    KeepAlive,
    isVNode,
    mergeProps,
    mergeDefaults,
    resolveComponent(name) {
      state.resolved.push('component:' + name);
      return { $rc: name };
    },
    resolveDirective(name) {
      state.resolved.push('directive:' + name);
      return { $rd: name };
    },
    withDirectives(vnode, directives) {
      const bindings = vnode.dirs || (vnode.dirs = []);
      for (let i = 0; i < directives.length; i++) {
        let [dir, value, arg, modifiers = {}] = directives[i];
        bindings.push({ dir, value, arg, modifiers, len: directives[i].length });
      }
      return vnode;
    },
    vShow,
    vModelText,
    vModelCheckbox,
    vModelRadio,
    vModelSelect,
    vModelDynamic,
    defineComponent(options, extraOptions) {
      const rec = { args: Array.from(arguments) };
      state.defined.push(rec);
      if (isFunction(options)) {
        return Object.assign({ name: options.name }, extraOptions, { setup: options, __dc: true });
      }
      return options;
    },
    h: mkFactory('h(vue)'),
    mkFactory,
  };
  return vue;
}
