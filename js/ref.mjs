// Reference semantics (DESIGN.md appendix A): decides everything at run time from the
// statements of C01-C05, shares only Vue's own helpers with the mock runtime.
import { mergeProps as vueMergeProps, isVNode, transformOn, Fragment, KeepAlive } from './vue-mock.mjs';

// A.1 - the standard JSX text rule (port of Babel's cleanJSXElementLiteralChild)
export function cleanText(value) {
  const lines = value.split(/\r\n|\n|\r/);
  let lastNonEmptyLine = 0;
  for (let i = 0; i < lines.length; i++) {
    if (/[^ \t]/.test(lines[i])) lastNonEmptyLine = i;
  }
  let str = '';
  for (let i = 0; i < lines.length; i++) {
    const line = lines[i];
    const isFirstLine = i === 0;
    const isLastLine = i === lines.length - 1;
    const isLastNonEmptyLine = i === lastNonEmptyLine;
    let trimmedLine = line.replace(/\t/g, ' ');
    if (!isFirstLine) trimmedLine = trimmedLine.replace(/^ +/, '');
    if (!isLastLine) trimmedLine = trimmedLine.replace(/ +$/, '');
    if (trimmedLine) {
      if (!isLastNonEmptyLine) trimmedLine += ' ';
      str += trimmedLine;
    }
  }
  return str;
}

function isPlainObject(v) {
  return Object.prototype.toString.call(v) === '[object Object]';
}

export function makeRef(state, vue) {
  const R = {};
  R.cleanText = cleanText;
  R.resolve = (name) => vue.resolveComponent(name);
  // text consisting only of spaces/tabs with no line break: the statement's gloss drops it,
  // the rule it names keeps it; cfg.wsOnlyDrop selects the reading (both are accepted)
  const clean = (cfg, s) => (cfg.wsOnlyDrop && /^[ \t]*$/.test(s) ? '' : cleanText(s));

  // tag denotations
  R.tag = {
    el: (name) => ({ comp: false, type: name }),
    val: (v) => ({ comp: true, type: v }),
    unbound: (name) => ({ comp: true, type: vue.resolveComponent(name) }),
    frag: () => ({ comp: false, type: Fragment }),
    keepAlive: (v) => ({ comp: false, type: v }),
  };

  function factory(cfg) {
    if (cfg.factory) {
      const f = globalThis[cfg.factory];
      return f;
    }
    return vue.createVNode;
  }

  // A.4 directive naming
  R.directiveName = function (written) {
    // written: attribute identifier or namespace part, e.g. "v-foo-bar", "vFooBar"
    let n = written;
    if (n.startsWith('v-')) n = n.slice(2);
    else if (n.startsWith('v')) n = n.slice(1);
    return n.charAt(0).toLowerCase() + n.slice(1);
  };

  R.modelDirective = function (host, typeAttr) {
    // host: tag string; typeAttr: {k:'none'} | {k:'static', v} | {k:'dynamic'}
    if (host === 'select') return ['vModelSelect'];
    if (host === 'textarea') return ['vModelText'];
    if (host === 'input') {
      if (typeAttr.k === 'static') {
        if (typeAttr.v === 'checkbox') return ['vModelCheckbox'];
        if (typeAttr.v === 'radio') return ['vModelRadio'];
        return ['vModelText'];
      }
      if (typeAttr.k === 'none') return ['vModelText'];
      if (typeAttr.k === 'container-literal') {
        const v = typeAttr.v;
        const exact = v === 'checkbox' ? 'vModelCheckbox' : v === 'radio' ? 'vModelRadio' : 'vModelText';
        return [exact, 'vModelDynamic'];
      }
      return ['vModelDynamic'];
    }
    // other element hosts: statement is silent; accept what the host tolerates
    return ['vModelText', 'vModelDynamic'];
  };

  // A.2 props fold + A.3 slots
  R.el = function (cfg, tag, entries, kids) {
    const acc = [];
    const dirs = [];
    let vslots;
    let hasVslots = false;
    for (const e of entries) {
      switch (e[0]) {
        case 'a':
          acc.push({ [e[1]]: e[2] });
          break;
        case 'b':
          acc.push({ [e[1]]: true });
          break;
        case 's':
          acc.push({ [e[1]]: clean(cfg, e[2]) });
          break;
        case 'sp':
          acc.push(e[1]);
          break;
        case 'on':
          if (cfg.transformOn) acc.push(transformOn(e[2]));
          else acc.push({ [e[1]]: e[2] });
          break;
        case 'html':
          acc.push({ innerHTML: e[1] });
          break;
        case 'text':
          acc.push({ textContent: e[1] });
          break;
        case 'dir': {
          const d = e[1];
          const name = R.directiveName(d.written);
          const dir = name === 'show' ? vue.vShow : vue.resolveDirective(name);
          const mods = {};
          for (const m of d.mods || []) mods[m] = true;
          dirs.push({ dir, value: d.value, arg: d.arg, argAlt: d.argAlt, modifiers: mods });
          break;
        }
        case 'vm': {
          const m = e[1]; // {get, set, arg, mods, host, typeAttr}
          const mods = {};
          for (const x of m.mods || []) mods[x] = true;
          const hasMods = (m.mods || []).length > 0;
          if (tag.comp) {
            const arg = m.arg === undefined || m.arg === null ? undefined : m.arg;
            const propName = arg === undefined ? 'modelValue' : arg;
            acc.push({ [propName]: m.get() });
            if (hasMods) acc.push({ [(arg === undefined ? 'model' : arg) + 'Modifiers']: mods });
            acc.push({ ['onUpdate:' + propName]: m.set });
          } else {
            const cands = R.modelDirective(tag.type, m.typeAttr || { k: 'none' });
            dirs.push({
              dir: vue[cands[0]],
              dirAlt: cands.slice(1).map((c) => vue[c]),
              value: m.get(),
              arg: m.arg,
              modifiers: mods,
            });
            acc.push({ 'onUpdate:modelValue': m.set });
          }
          break;
        }
        case 'vs':
          vslots = e[1];
          hasVslots = true;
          break;
        default:
          throw new Error('bad entry ' + e[0]);
      }
    }
    let props = null;
    if (acc.length) {
      props = cfg.mergeProps ? vueMergeProps(...acc) : Object.assign({}, ...acc);
    }

    let children;
    if (!tag.comp) {
      const items = R.items(cfg, kids.thunk());
      children = items.length || items.hadSpread ? items : null;
    } else {
      children = R.slots(cfg, kids, hasVslots ? vslots : undefined, hasVslots);
    }
    const vnode = factory(cfg)(tag.type, props, children);
    if (dirs.length) {
      vnode.dirs = dirs.map((d) => ({
        dir: d.dir,
        dirAlt: d.dirAlt,
        value: d.value,
        arg: d.arg,
        argAlt: d.argAlt,
        modifiers: d.modifiers,
      }));
    }
    return vnode;
  };

  R.frag = function (cfg, kids) {
    const items = R.items(cfg, kids.thunk());
    return factory(cfg)(Fragment, null, items.length || items.hadSpread ? items : null);
  };

  // child items -> runtime child list
  R.items = function (cfg, list) {
    const out = [];
    for (const it of list) {
      switch (it[0]) {
        case 't': {
          const s = clean(cfg, it[1]);
          if (s !== '') out.push(vue.createTextVNode(s));
          break;
        }
        case 'e':
          out.push(it[1]);
          break;
        case 'sp':
          out.push(...it[1]);
          out.hadSpread = true; // a written spread child always yields a list, even if empty
          break;
        case 'n':
          out.push(it[1]);
          break;
        default:
          throw new Error('bad child ' + it[0]);
      }
    }
    return out;
  };

  R.slots = function (cfg, kids, vslots, hasVslots) {
    const extra = hasVslots && vslots ? vslots : undefined;
    const lazy = () => ({ default: () => R.items(cfg, kids.thunk()), ...extra });
    if (extra !== undefined && cfg.vslotsWrap && kids.shape !== 'none') {
      // reading B of "v-slots entries are merged beside default": with v-slots every child
      // list, even a single child, is ordinary lazily evaluated default-slot content
      return lazy();
    }
    switch (kids.shape) {
      case 'none':
        return extra === undefined ? null : extra;
      case 'ident':
      case 'call': {
        if (!cfg.objectSlots) {
          // always wrapped: ordinary lazily evaluated slot content (C11)
          return lazy();
        }
        const list = kids.thunk(); // evaluated exactly once, at creation
        const v = list[0][1];
        if (typeof v === 'function' || (isPlainObject(v) && !isVNode(v))) {
          if (extra === undefined) return v;
          // reading A: passed through, with the v-slots entries merged beside it
          return typeof v === 'function' ? { default: v, ...extra } : { ...v, ...extra };
        }
        return { default: () => [v], ...extra };
      }
      case 'fn': {
        const f = kids.thunk()[0][1];
        return { default: f, ...extra };
      }
      case 'obj': {
        const o = kids.thunk()[0][1];
        return { ...o, ...extra };
      }
      default:
        return lazy();
    }
  };

  return R;
}
