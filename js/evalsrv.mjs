// Evaluator: reads JSON-line requests, evaluates ES modules with vm.SourceTextModule against
// the mock runtime, replies with canonical values. One process per runner thread.
import vm from 'node:vm';
import readline from 'node:readline';
import { makeVue, transformOn, validatePropType, isVNode } from './vue-mock.mjs';
import { makeCanon } from './canon.mjs';
import { makeRef } from './ref.mjs';

const installedGlobals = new Set();

function buildValue(spec, state) {
  if (spec === null || typeof spec !== 'object') return spec;
  switch (spec.k) {
    case 'str':
    case 'num':
    case 'bool':
      return spec.v;
    case 'null':
      return null;
    case 'undef':
      return undefined;
    case 'big':
      return BigInt(spec.v);
    case 'sym':
      return Symbol(spec.v);
    case 'arr':
      return spec.v.map((s) => buildValue(s, state));
    case 'obj': {
      const o = {};
      for (const k of Object.keys(spec.v)) o[k] = buildValue(spec.v[k], state);
      return o;
    }
    case 'fn': {
      // named function: logs its call, returns a fixed value (built once)
      const ret = buildValue(spec.ret, state);
      const id = spec.id;
      const f = function () {
        state.trace.push('call:' + id);
        return ret;
      };
      state.fnIds.set(f, id);
      return f;
    }
    case 'seqfn': {
      // stateful function: the n-th call returns "<id>#n" (distinguishes evaluations)
      const id = spec.id;
      let n = 0;
      const f = function () {
        n += 1;
        state.trace.push('call:' + id);
        return id + '#' + n;
      };
      state.fnIds.set(f, id);
      return f;
    }
    case 'vnode': {
      const v = state.vue.createVNode('mark', { id: spec.id }, null);
      return v;
    }
    case 'comp': {
      const c = { name: spec.id, __comp: true };
      state.objIds.set(c, spec.id);
      return c;
    }
    case 'logobj': {
      // object whose listed getters log the access
      const o = {};
      const id = spec.id;
      for (const k of Object.keys(spec.props)) {
        const val = buildValue(spec.props[k], state);
        let cur = val;
        Object.defineProperty(o, k, {
          enumerable: true,
          configurable: true,
          get() {
            state.trace.push('get:' + id + '.' + k);
            return cur;
          },
          set(nv) {
            state.trace.push('set:' + id + '.' + k);
            cur = nv;
          },
        });
      }
      return o;
    }
    case 'tracer': {
      // t(n): logs `t(n)`, returns rets[n] (default otherwise)
      const rets = {};
      for (const k of Object.keys(spec.rets || {})) rets[k] = buildValue(spec.rets[k], state);
      const dflt = buildValue(spec.default === undefined ? { k: 'undef' } : spec.default, state);
      const id = spec.id || 't';
      const f = function (n) {
        state.trace.push(id + '(' + String(n) + ')');
        return Object.prototype.hasOwnProperty.call(rets, String(n)) ? rets[String(n)] : dflt;
      };
      state.fnIds.set(f, id);
      return f;
    }
    case 'recorder': {
      // records the arguments of every call (C20: non-vue `defineComponent` look-alikes)
      const id = spec.id;
      const f = function (...args) {
        state.recorded.push({ id, args });
        return { recordedBy: id };
      };
      state.fnIds.set(f, id);
      return f;
    }
    case 'ctor':
      return globalThis[spec.v];
    case 'instance': {
      switch (spec.v) {
        case 'Date':
          return new Date(0);
        case 'Map':
          return new Map();
        case 'Set':
          return new Set();
        case 'WeakMap':
          return new WeakMap();
        case 'WeakSet':
          return new WeakSet();
        case 'Promise':
          return Promise.resolve(1);
        case 'RegExp':
          return /x/;
        case 'Error':
          return new Error('e');
        case 'String':
          return new String('s');
        default:
          return {};
      }
    }
    default:
      throw new Error('bad env spec kind ' + spec.k);
  }
}

function makeState() {
  const state = {
    trace: [],
    vnodes: [],
    resolved: [],
    defined: [],
    recorded: [],
    fnIds: new Map(),
    objIds: new Map(),
  };
  state.vue = makeVue(state);
  state.R = makeRef(state, state.vue);
  return state;
}

// node 20 segfaults in SyntheticModuleEvaluationStepsCallback when the JS wrapper of a synthetic
// module was garbage-collected between link() and evaluate(): keep the wrappers of the current
// request strongly reachable (cleared at the start of every request)
let keepAlive = [];

function synthetic(exportsObj, context) {
  const names = Object.keys(exportsObj);
  const m = new vm.SyntheticModule(
    names,
    function () {
      for (const n of names) this.setExport(n, exportsObj[n]);
    },
    { context },
  );
  keepAlive.push(m);
  return m;
}

async function evalModule(code, envSpec, protocol) {
  const state = makeState();
  const out = { exports: {}, error: null };
  // environment
  const bound = {};
  for (const k of Object.keys(envSpec.bound || {})) bound[k] = buildValue(envSpec.bound[k], state);
  const globals = {};
  for (const k of Object.keys(envSpec.globals || {})) globals[k] = buildValue(envSpec.globals[k], state);
  for (const name of envSpec.factories || []) globals[name] = state.vue.mkFactory(name);
  for (const k of installedGlobals) delete globalThis[k];
  installedGlobals.clear();
  for (const k of Object.keys(globals)) {
    globalThis[k] = globals[k];
    installedGlobals.add(k);
  }
  const { canon, canonError } = makeCanon(state, protocol);
  let mod;
  try {
    mod = new vm.SourceTextModule(code, { identifier: 'case.mjs' });
  } catch (e) {
    out.error = canonError(e, 'parse');
    return out;
  }
  const vueNs = Object.assign({}, state.vue);
  delete vueNs.mkFactory;
  const mods = {
    vue: vueNs,
    env: bound,
    '@vue/babel-helper-vue-transform-on': { default: transformOn },
    ref: { R: state.R, default: state.R },
  };
  try {
    await mod.link((spec) => {
      if (!(spec in mods)) throw new Error('unknown module ' + spec);
      return synthetic(mods[spec]);
    });
  } catch (e) {
    out.error = canonError(e, 'link');
    return out;
  }
  try {
    await mod.evaluate();
  } catch (e) {
    out.error = canonError(e, 'evaluate');
    out.trace_at_error = state.trace.slice();
    return out;
  }
  const ns = mod.namespace;
  const names = Object.keys(ns).sort();
  out.creation_trace = state.trace.slice();
  const traces = {};
  for (const n of names) {
    if (n.startsWith('__')) continue;
    let v = ns[n];
    const t0 = state.trace.length;
    if (protocol.callThunks && typeof v === 'function' && n.startsWith('thunk')) {
      try {
        if (protocol.callThunksTwice) {
          // two evaluations, canonicalised (slots invoked) only after both have happened
          const first = v();
          const second = v();
          v = [first, second];
        } else v = v();
      } catch (e) {
        out.exports[n] = canonError(e, 'thunk');
        traces[n] = state.trace.slice(t0);
        continue;
      }
    }
    if (protocol.construct && typeof v === 'function' && n.startsWith('K')) {
      // classes: construct, call members named in protocol
      try {
        const inst = new v();
        const r = {};
        for (const key of Object.getOwnPropertyNames(inst)) r[key] = inst[key];
        const proto = Object.getPrototypeOf(inst);
        for (const key of Object.getOwnPropertyNames(proto)) {
          if (key === 'constructor') continue;
          const d = Object.getOwnPropertyDescriptor(proto, key);
          if (d.get) r['get ' + key] = inst[key];
          else if (d.set) {
            inst[key] = 1;
            r['set ' + key] = true;
          } else if (typeof d.value === 'function') r[key + '()'] = inst[key]();
        }
        for (const key of Object.getOwnPropertyNames(v)) {
          if (['length', 'name', 'prototype'].includes(key)) continue;
          r['static ' + key] = v[key];
        }
        v = r;
      } catch (e) {
        out.exports[n] = canonError(e, 'construct');
        traces[n] = state.trace.slice(t0);
        continue;
      }
    }
    try {
      out.exports[n] = canon(v);
    } catch (e) {
      out.exports[n] = canonError(e, 'canon');
    }
    traces[n] = state.trace.slice(t0);
  }
  if (protocol.trace) out.traces = traces;

  if (protocol.fireListeners && typeof ns.__read === 'function') {
    // C05: call every onUpdate:* listener found on any recorded vnode with a fresh sentinel and
    // record which target paths changed to which value. Order-insensitive: the sentinel is
    // named after the listener key (+ occurrence), entries are sorted.
    const fired = [];
    const seenKeys = new Map();
    const flat = (v, path, out) => {
      if (v !== null && typeof v === 'object') {
        for (const k of Object.keys(v)) flat(v[k], path + '/' + k, out);
      } else out[path] = v;
      return out;
    };
    const snapshot = () => {
      try {
        return flat(ns.__read(), '', {});
      } catch (e) {
        return { '!error': String(e && e.message) };
      }
    };
    for (const vn of state.vnodes.slice()) {
      const p = vn.props;
      if (!p || typeof p !== 'object') continue;
      for (const k of Object.keys(p)) {
        if (!k.startsWith('onUpdate')) continue;
        const hs = (Array.isArray(p[k]) ? p[k].flat(Infinity) : [p[k]]).filter(
          (h) => typeof h === 'function' && !state.fnIds.has(h),
        );
        for (const h of hs) {
          const occ = (seenKeys.get(k) || 0) + 1;
          seenKeys.set(k, occ);
          const sentinel = 'sentinel#' + k + '#' + occ;
          const before = snapshot();
          let err = null;
          try {
            h(sentinel);
          } catch (e) {
            err = canonError(e, 'listener');
          }
          const after = snapshot();
          const changed = [];
          for (const path of Object.keys(after).sort()) {
            if (before[path] !== after[path]) changed.push([path, after[path] === undefined ? null : after[path]]);
          }
          for (const path of Object.keys(before)) if (!(path in after)) changed.push([path, '<gone>']);
          fired.push({ key: k, occurrence: occ, err, changed });
        }
      }
    }
    fired.sort((a, b) => (a.key + '#' + a.occurrence < b.key + '#' + b.occurrence ? -1 : 1));
    out.fired = fired;
  }
  if (protocol.defined) {
    out.defined = state.defined.map((d) => d.args.map(canon));
  }
  if (protocol.resolved) out.resolved = state.resolved.slice();
  return out;
}

// C16-C19: evaluate a module, then inspect the options received by defineComponent
async function evalDefine(code, envSpec, protocol) {
  const state = makeState();
  const out = { error: null };
  const bound = {};
  for (const k of Object.keys(envSpec.bound || {})) bound[k] = buildValue(envSpec.bound[k], state);
  for (const k of installedGlobals) delete globalThis[k];
  installedGlobals.clear();
  for (const k of Object.keys(envSpec.globals || {})) {
    globalThis[k] = buildValue(envSpec.globals[k], state);
    installedGlobals.add(k);
  }
  const { canon, canonError } = makeCanon(state, protocol);
  let mod;
  try {
    mod = new vm.SourceTextModule(code, { identifier: 'case.mjs' });
  } catch (e) {
    out.error = canonError(e, 'parse');
    return out;
  }
  const vueNs = Object.assign({}, state.vue);
  delete vueNs.mkFactory;
  // another vue export that a module may import under the name `defineComponent` (C20)
  vueNs.h = function (...args) {
    state.recorded.push({ id: 'vue.h', args });
    return { recordedBy: 'vue.h' };
  };
  const otherDc = function (...args) {
    state.recorded.push({ id: 'other.defineComponent', args });
    return { recordedBy: 'other' };
  };
  const mods = { vue: vueNs, env: bound, other: { defineComponent: otherDc } };
  try {
    await mod.link((spec) => {
      if (!(spec in mods)) throw new Error('unknown module ' + spec);
      return synthetic(mods[spec]);
    });
    await mod.evaluate();
  } catch (e) {
    out.error = canonError(e, 'evaluate');
    return out;
  }
  const ns = mod.namespace;
  // calls made inside exported thunks count too
  for (const n of Object.keys(ns).sort()) {
    if (n.startsWith('thunk') && typeof ns[n] === 'function') {
      try {
        ns[n]();
      } catch (e) {
        out.error = canonError(e, 'thunk:' + n);
        return out;
      }
    }
  }
  out.calls = state.defined.map((rec) => {
    const [setup, options] = rec.args;
    const r = { nargs: rec.args.length, arg0: canon(setup), options_kind: options === undefined ? 'absent' : typeof options };
    if (protocol.rawArgs) r.args = rec.args.map(canon);
    if (options && typeof options === 'object') {
      r.keys = Object.keys(options);
      r.name = canon(options.name);
      r.emits = canon(options.emits);
      const props = options.props;
      if (props && typeof props === 'object' && !Array.isArray(props)) {
        r.props = {};
        for (const k of Object.keys(props)) {
          const opt = props[k];
          const e = { raw: null };
          if (opt && typeof opt === 'object' && !Array.isArray(opt)) {
            e.required = canon(opt.required);
            const ty = opt.type;
            const tys = ty === undefined ? undefined : Array.isArray(ty) ? ty : [ty];
            e.type =
              tys === undefined
                ? { $: 'u' }
                : tys.map((t) => (t === null ? null : typeof t === 'function' ? t.name : canon(t)));
            e.type_is_array = Array.isArray(ty);
            e.has_default = Object.prototype.hasOwnProperty.call(opt, 'default');
            e.skipFactory = !!opt.skipFactory;
            if (e.has_default) {
              // resolve the default the way Vue's resolvePropValue does
              const d = opt.default;
              try {
                const isFactory = typeof d === 'function' && ty !== Function && !opt.skipFactory;
                e.default_called = isFactory;
                const resolved = isFactory ? d({}) : d;
                e.resolved = canon(resolved);
              } catch (err) {
                e.resolved = canonError(err, 'default');
              }
            }
            if (protocol.inhabitants && protocol.inhabitants[k]) {
              e.accepts = protocol.inhabitants[k].map((spec) => validatePropType(buildValue(spec, state), ty));
            }
          } else {
            e.raw = canon(opt);
          }
          r.props[k] = e;
        }
      } else {
        r.props_raw = canon(props);
      }
    } else if (options !== undefined) {
      r.options_raw = canon(options);
    }
    if (rec.args.length > 2) r.extra_args = rec.args.slice(2).map(canon);
    return r;
  });
  out.recorded = state.recorded.map((r) => ({ id: r.id, args: r.args.map(canon) }));
  if (protocol.exports) {
    out.exports = {};
    for (const n of Object.keys(ns).sort()) {
      try {
        out.exports[n] = canon(typeof ns[n] === 'function' && n.startsWith('thunk') ? ns[n]() : ns[n]);
      } catch (e) {
        out.exports[n] = canonError(e, 'export');
      }
    }
  }
  void isVNode;
  return out;
}

const rl = readline.createInterface({ input: process.stdin, crlfDelay: Infinity });
for await (const line of rl) {
  if (!line.trim()) continue;
  let req;
  try {
    req = JSON.parse(line);
  } catch (e) {
    continue;
  }
  const reply = { id: req.id, results: {} };
  keepAlive = [];
  try {
    for (const m of req.modules) {
      if (req.mode === 'syntax') {
        // parse only (early errors included); nothing is linked or evaluated
        try {
          const mod = new vm.SourceTextModule(m.code, { context: vm.createContext({}) });
          void mod;
          reply.results[m.name] = { ok: true };
        } catch (e) {
          reply.results[m.name] = { ok: false, error: String(e && e.message ? e.message : e) };
        }
      } else if (req.mode === 'define') reply.results[m.name] = await evalDefine(m.code, req.env || {}, req.protocol || {});
      else reply.results[m.name] = await evalModule(m.code, req.env || {}, req.protocol || {});
    }
  } catch (e) {
    reply.fatal = String(e && e.stack ? e.stack : e);
  }
  process.stdout.write(JSON.stringify(reply) + '\n');
}
