#![no_main]
use libfuzzer_sys::fuzz_target;
// bytes as UTF-8 source text (first byte selects options); the oracle (VJX_ORACLE) is inside
fuzz_target!(|data: &[u8]| vjx::fuzz::run_raw(data));
