#![no_main]
use libfuzzer_sys::fuzz_target;
// bytes -> choice sequence -> the same decoders proptest uses; the oracle (VJX_ORACLE) is inside
fuzz_target!(|data: &[u8]| vjx::fuzz::run_structured(data));
