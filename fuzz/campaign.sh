#!/usr/bin/env bash
# campaign.sh <oracle> <target> <seconds> <jobs>: long libFuzzer campaign outside the registered
# checks (exploration only; anything found must be reproduced through ./check --replay).
set -u
ROOT="$(cd "$(dirname "$0")/.." && pwd)"
O="$1"; T="$2"; S="$3"; J="$4"
W="$ROOT/fuzz/corpus/$T/tmp-campaign-$O-$$"; mkdir -p "$W/corpus" "$W/out"
if [ "$T" = raw ]; then
  i=0; for f in /repo/visitor/tests/fixture/*/input.jsx /repo/visitor/tests/fixture/*/*/input.tsx; do
    i=$((i+1)); case "$f" in *.tsx) printf '\222' ;; *) printf '\002' ;; esac > "$W/corpus/fx$i"; cat "$f" >> "$W/corpus/fx$i"; done
fi
cd "$W" && VJX_ROOT="$ROOT" VJX_ORACLE="$O" VJX_FUZZ_OUT="$W/out" \
  "$ROOT/fuzz/target/x86_64-unknown-linux-gnu/release/$T" -max_total_time="$S" -seed=7 -fork="$J" \
  -max_len=800 -len_control=0 -rss_limit_mb=4096 -timeout=25 -artifact_prefix="$W/out/" corpus 2>&1 | grep -E "^#[0-9]+:|VJX-VIOLATION|crash|deadly" | tail -5
ls "$W/out" | head; mkdir -p "$ROOT/fuzz/found"; cp "$W"/out/* "$ROOT/fuzz/found/" 2>/dev/null; rm -rf "$W/corpus"
