#!/usr/bin/env bash
# tools/coverage.sh [tier]: which lines of /repo/visitor/src do the generated cases of all checks reach?
# Exploration aid only (not a registered check): builds an instrumented copy of the harness against a
# scratch worktree of /repo under /tmp/vjx-cov, runs every check's quick tier there, prints the
# llvm-cov summary and the never-executed lines. Removes its scratch space at the end.
set -u
T=/tmp/vjx-cov; TIER="${1:-quick}"
B=$(ls -d ~/.rustup/toolchains/nightly-x86_64-unknown-linux-gnu/lib/rustlib/x86_64-unknown-linux-gnu/bin)
rm -rf $T; mkdir -p $T/prof $T/root/evidence
git -C /repo worktree add --detach $T/repo HEAD -q || exit 2
rsync -a --exclude target --exclude build.log /verif/harness/ $T/harness/
sed -i "s#path = \"/repo/visitor\"#path = \"$T/repo/visitor\"#" $T/harness/Cargo.toml
rsync -a --exclude harness --exclude fuzz --exclude .git --exclude evidence --exclude tools /verif/ $T/root/
( cd $T/harness && RUSTFLAGS="-C instrument-coverage" CARGO_NET_OFFLINE=true cargo +nightly build --release --offline 2>&1 | tail -1 )
for i in $(seq -w 1 20); do
  VJX_ROOT=$T/root LLVM_PROFILE_FILE=$T/prof/C$i-%p-%m.profraw $T/harness/target/release/vjx check C$i $TIER 2>&1 | grep -E "^(OK|VIOLATION|INCONCLUSIVE)" | cut -c1-90
done
$B/llvm-profdata merge -sparse $T/prof/*.profraw -o $T/all.profdata
$B/llvm-cov report $T/harness/target/release/vjx -instr-profile=$T/all.profdata $T/repo/visitor/src 2>/dev/null | tail -9
$B/llvm-cov show $T/harness/target/release/vjx -instr-profile=$T/all.profdata $T/repo/visitor/src/*.rs --show-line-counts-or-regions 2>/dev/null \
  | awk '/^\/tmp\/vjx-cov\/repo/ {file=$0} /^ +[0-9]+\| +0\|/ {print file " " $0}' | sed "s#$T/repo/visitor/src/##" | cut -c1-150
git -C /repo worktree remove --force $T/repo; rm -rf $T
