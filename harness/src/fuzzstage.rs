//! Thorough-tier libFuzzer campaigns (coverage-guided) for C07 / C08 / C09 / C14 on the same
//! decoders and oracles. A time budget that runs out means "nothing found", never a violation.

use std::path::PathBuf;
use std::process::Command;

use serde_json::json;

use crate::runner::{verif_root, Case, Ctx, Stats, Verdict, Violation};

fn bin(target: &str) -> PathBuf {
    verif_root().join(format!("fuzz/target/x86_64-unknown-linux-gnu/release/{target}"))
}

fn seed_raw_corpus(dir: &PathBuf) {
    // fixture inputs of the repository, with an options byte in front
    fn walk(d: &std::path::Path, out: &mut Vec<PathBuf>) {
        if let Ok(rd) = std::fs::read_dir(d) {
            for e in rd.flatten() {
                let p = e.path();
                if p.is_dir() {
                    walk(&p, out);
                } else if p.file_name().map(|n| n == "input.jsx" || n == "input.tsx").unwrap_or(false) {
                    out.push(p);
                }
            }
        }
    }
    let mut files = vec![];
    walk(std::path::Path::new("/repo/visitor/tests/fixture"), &mut files);
    files.sort();
    for (i, f) in files.iter().enumerate() {
        if let Ok(src) = std::fs::read(f) {
            let tsx = f.extension().map(|e| e == "tsx").unwrap_or(false);
            let mut bytes = vec![if tsx { 0x80 | 0x10 | 0x02 } else { 0x02 }];
            bytes.extend(src);
            let _ = std::fs::write(dir.join(format!("fixture-{i:03}")), bytes);
        }
    }
}

pub fn fuzz_stage(
    oracle: &str,
    ctx: &mut Ctx,
    stats: &mut Stats,
    seconds: u64,
    with_raw: bool,
) -> Result<Option<Violation>, String> {
    let jobs = crate::runner::threads().max(2);
    let mut report = vec![];
    let targets: Vec<&str> = if with_raw { vec!["structured", "raw"] } else { vec!["structured"] };
    for target in targets {
        let exe = bin(target);
        if !exe.is_file() {
            return Err(format!(
                "fuzz target {} not built (run `cargo +nightly fuzz build --fuzz-dir /verif/fuzz`)",
                exe.display()
            ));
        }
        let work = verif_root().join(format!("fuzz/corpus/{target}/tmp-{oracle}-{}", std::process::id()));
        let _ = std::fs::remove_dir_all(&work);
        let corpus = work.join("corpus");
        let out = work.join("out");
        std::fs::create_dir_all(&corpus).map_err(|e| e.to_string())?;
        std::fs::create_dir_all(&out).map_err(|e| e.to_string())?;
        if target == "raw" {
            seed_raw_corpus(&corpus);
        }
        let secs = if target == "raw" { seconds * 2 / 3 } else { seconds };
        let output = Command::new(&exe)
            .current_dir(&work)
            .env("VJX_ROOT", verif_root())
            .env("VJX_ORACLE", oracle)
            .env("VJX_FUZZ_OUT", &out)
            .arg(format!("-max_total_time={secs}"))
            .arg(format!("-seed={}", ctx.seed))
            .arg(format!("-fork={jobs}"))
            .arg("-max_len=600")
            .arg("-len_control=0")
            .arg("-rss_limit_mb=4096")
            // a unit that needs longer is written as timeout-* and re-judged below (the SWC parser
            // has exponential inputs; those are discarded as "parser-exceeded-cpu-budget")
            .arg("-timeout=25")
            .arg(format!("-artifact_prefix={}/", out.display()))
            .arg(&corpus)
            .output()
            .map_err(|e| format!("cannot run fuzz target: {e}"))?;
        let text = String::from_utf8_lossy(&output.stderr).to_string();
        // executed units: the fork-mode parent prints `#<total>: cov: ...` summary lines
        let execs = text
            .lines()
            .filter_map(|l| {
                let l = l.trim_start();
                let r = l.strip_prefix('#')?;
                let (n, rest) = r.split_once(':')?;
                if !rest.contains("cov:") {
                    return None;
                }
                n.trim().parse::<u64>().ok()
            })
            .max()
            .unwrap_or(0);
        let corpus_units = std::fs::read_dir(&corpus).map(|r| r.count()).unwrap_or(0);
        report.push(json!({"target": target, "oracle": oracle, "seconds": secs, "jobs": jobs,
            "executed_units": execs, "corpus_units": corpus_units}));
        // violations reported by the in-target oracle
        let mut found: Option<Violation> = None;
        if let Ok(rd) = std::fs::read_dir(&out) {
            let mut files: Vec<_> = rd.flatten().map(|e| e.path()).collect();
            files.sort();
            for f in files {
                let name = f.file_name().map(|n| n.to_string_lossy().to_string()).unwrap_or_default();
                if name.starts_with("violation-") {
                    if let Ok(s) = std::fs::read_to_string(&f) {
                        if let Ok(v) = serde_json::from_str::<serde_json::Value>(&s) {
                            if let Ok(case) = serde_json::from_value::<Case>(v["case"].clone()) {
                                // the in-target oracle has no second parser: apply C07's domain
                                // guard here (an input swc accepted but node rejects is no module)
                                if oracle == "C07" {
                                    if let Verdict::Discard(_) = crate::props::c07::full_check(&case, ctx) {
                                        continue;
                                    }
                                }
                                found = Some(Violation {
                                    kind: v["kind"].as_str().unwrap_or("fuzz").to_string(),
                                    detail: v["detail"].clone(),
                                    case,
                                    choice_bytes: None,
                                });
                                break;
                            }
                        }
                    }
                } else if name.starts_with("crash-") || name.starts_with("oom-") || name.starts_with("timeout-") {
                    // a crash without an oracle report (e.g. stack overflow): re-judge the input
                    // through the worker-process path of C08
                    if let Ok(bytes) = std::fs::read(&f) {
                        let case = if target == "raw" {
                            crate::fuzz::decode_raw(&bytes)
                        } else {
                            Some(crate::fuzz::decode_structured(oracle, &bytes))
                        };
                        if let Some(case) = case {
                            if let Verdict::Violation { kind, detail } = crate::props::c08::judge(&case, ctx) {
                                found = Some(Violation {
                                    kind,
                                    detail,
                                    case,
                                    choice_bytes: Some(bytes),
                                });
                                break;
                            }
                        }
                    }
                }
            }
        }
        let _ = std::fs::remove_dir_all(&work);
        if found.is_some() {
            stats.extra.insert("fuzz".into(), json!(report));
            return Ok(found);
        }
    }
    stats.extra.insert("fuzz".into(), json!(report));
    Ok(None)
}
