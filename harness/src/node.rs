//! Persistent node child speaking JSON lines with js/evalsrv.mjs.

use std::io::{BufRead, BufReader, Write};
use std::path::PathBuf;
use std::process::{Child, ChildStdin, ChildStdout, Command, Stdio};

use serde_json::Value;

pub struct NodeChild {
    child: Child,
    stdin: ChildStdin,
    stdout: BufReader<ChildStdout>,
    next_id: u64,
}

fn find_node() -> Option<PathBuf> {
    if let Ok(p) = std::env::var("VJX_NODE") {
        return Some(PathBuf::from(p));
    }
    let mut cands: Vec<PathBuf> = vec![];
    if let Ok(path) = std::env::var("PATH") {
        for d in path.split(':') {
            cands.push(PathBuf::from(d).join("node"));
        }
    }
    if let Ok(rd) = std::fs::read_dir("/root/.nvm/versions/node") {
        for e in rd.flatten() {
            cands.push(e.path().join("bin/node"));
        }
    }
    cands.push(PathBuf::from("/usr/bin/nodejs"));
    cands.push(PathBuf::from("/usr/bin/node"));
    cands.into_iter().find(|p| p.is_file())
}

impl NodeChild {
    pub fn spawn() -> Result<NodeChild, String> {
        let node = find_node().ok_or("evaluator unavailable: node not found")?;
        let script = crate::runner::verif_root().join("js/evalsrv.mjs");
        let mut child = Command::new(node)
            .arg("--experimental-vm-modules")
            .arg("--no-warnings")
            .arg(script)
            .stdin(Stdio::piped())
            .stdout(Stdio::piped())
            .stderr(Stdio::inherit())
            .spawn()
            .map_err(|e| format!("evaluator unavailable: {e}"))?;
        let stdin = child.stdin.take().unwrap();
        let stdout = BufReader::new(child.stdout.take().unwrap());
        Ok(NodeChild {
            child,
            stdin,
            stdout,
            next_id: 1,
        })
    }

    /// send one request, wait for its reply
    pub fn request(&mut self, mut req: Value) -> Result<Value, String> {
        let id = self.next_id;
        self.next_id += 1;
        req["id"] = Value::from(id);
        let mut line = serde_json::to_string(&req).map_err(|e| e.to_string())?;
        line.push('\n');
        self.stdin
            .write_all(line.as_bytes())
            .map_err(|e| format!("evaluator died (write): {e}"))?;
        self.stdin.flush().map_err(|e| e.to_string())?;
        let mut buf = String::new();
        loop {
            buf.clear();
            let n = self
                .stdout
                .read_line(&mut buf)
                .map_err(|e| format!("evaluator died (read): {e}"))?;
            if n == 0 {
                let st = self.child.wait().map(|s| format!("{s}")).unwrap_or_default();
                return Err(format!("evaluator died (eof; {st})"));
            }
            let v: Value = match serde_json::from_str(&buf) {
                Ok(v) => v,
                Err(_) => continue, // stray output
            };
            if v["id"].as_u64() == Some(id) {
                return Ok(v);
            }
        }
    }
}

impl Drop for NodeChild {
    fn drop(&mut self) {
        let _ = self.child.kill();
        let _ = self.child.wait();
    }
}
