//! TypeScript generators for the resolveType properties (C16-C20): prop maps, structural
//! encodings of a prop map, type expressions with expected runtime constructors.

use crate::choices::Choices;

#[derive(Clone, Debug, PartialEq)]
pub enum Kind {
    Property,
    Method,
    Getter,
}

#[derive(Clone, Debug)]
pub struct Prop {
    /// key as it must appear in the props option
    pub key: String,
    /// written quoted
    pub quoted: bool,
    /// written as a computed string literal key: `["key"]`
    pub computed: bool,
    /// written as `[ident]` where a module-level `const ident = "key"` exists
    pub computed_ident: Option<String>,
    pub kind: Kind,
    pub optional: bool,
    /// member type text (for properties / getters)
    pub ty: String,
}

impl Prop {
    fn key_text(&self) -> String {
        if let Some(id) = &self.computed_ident {
            return format!("[{id}]");
        }
        if self.computed {
            format!("[\"{}\"]", self.key)
        } else if self.quoted {
            format!("\"{}\"", self.key)
        } else {
            self.key.clone()
        }
    }
    pub fn member(&self) -> String {
        let k = self.key_text();
        match self.kind {
            Kind::Property => format!("{k}{}: {}", if self.optional { "?" } else { "" }, self.ty),
            Kind::Method => format!("{k}{}(a: number): void", if self.optional { "?" } else { "" }),
            Kind::Getter => format!("get {k}(): {}", self.ty),
        }
    }
}

pub const IDENT_KEYS: &[&str] = &["alpha", "beta", "gamma", "delta", "eps", "zeta", "eta", "theta"];
pub const QUOTED_KEYS: &[&str] = &["q-1", "with space", "q2", "on:x"];
const MEMBER_TYPES: &[&str] = &[
    "string", "number", "boolean", "string[]", "() => void", "Date", "{ a: 1 }", "string | number",
    "null", "any", "\"lit\"", "Array<number>",
];

pub struct Decl {
    pub text: String,
    pub after: bool,
}

pub struct TypeGen<'a, 'b> {
    pub allow_computed_ident: bool,
    pub c: &'a mut Choices<'b>,
    pub decls: Vec<Decl>,
    pub labels: Vec<String>,
    fresh: usize,
    used_keys: Vec<String>,
    pub depth_reached: usize,
    pub allow_after: bool,
}

impl<'a, 'b> TypeGen<'a, 'b> {
    pub fn new(c: &'a mut Choices<'b>) -> Self {
        TypeGen {
            allow_computed_ident: false,
            c,
            decls: vec![],
            labels: vec![],
            fresh: 0,
            used_keys: vec![],
            depth_reached: 0,
            allow_after: true,
        }
    }

    pub fn label(&mut self, l: impl Into<String>) {
        let l = l.into();
        if !self.labels.contains(&l) {
            self.labels.push(l);
        }
    }

    pub fn fresh(&mut self, p: &str) -> String {
        self.fresh += 1;
        format!("{p}{}", self.fresh)
    }

    fn fresh_key(&mut self) -> Option<(String, bool)> {
        for _ in 0..6 {
            let (k, q) = if self.c.chance(1, 4) {
                (self.c.choose(QUOTED_KEYS).to_string(), true)
            } else {
                (self.c.choose(IDENT_KEYS).to_string(), false)
            };
            if !self.used_keys.contains(&k) {
                self.used_keys.push(k.clone());
                return Some((k, q));
            }
        }
        None
    }

    pub fn prop(&mut self) -> Option<Prop> {
        let (key, quoted) = self.fresh_key()?;
        let kind = match self.c.weighted(&[7, 2, 1]) {
            0 => Kind::Property,
            1 => Kind::Method,
            _ => Kind::Getter,
        };
        let optional = kind != Kind::Getter && self.c.chance(1, 3);
        let ty = self.c.choose(MEMBER_TYPES).to_string();
        // a computed string-literal key spells the same key
        let computed = kind == Kind::Property && self.c.chance(1, 10);
        if computed {
            self.label("computed-literal-key");
        }
        // `[ck]: T` with `const ck = "key"`: the prop is named by the constant's value
        // (only on request: Pick / Omit / indexed access cannot look through the constant)
        let computed_ident = if self.allow_computed_ident && kind == Kind::Property && !computed && self.c.chance(1, 3) {
            let id = self.fresh("ck");
            self.decls.insert(
                0,
                Decl {
                    text: format!("const {id} = {};", serde_json::to_string(&key).unwrap()),
                    after: false,
                },
            );
            self.label("computed-identifier-key");
            Some(id)
        } else {
            None
        };
        Some(Prop {
            key,
            quoted,
            computed,
            computed_ident,
            kind,
            optional,
            ty,
        })
    }

    pub fn prop_map(&mut self, min: usize, max: usize) -> Vec<Prop> {
        let n = self.c.range(min, max);
        let mut v = vec![];
        for _ in 0..n {
            if let Some(p) = self.prop() {
                v.push(p);
            }
        }
        v
    }

    fn push_decl(&mut self, text: String) {
        let after = self.allow_after && self.c.chance(1, 4);
        if after {
            self.label("declaration-after-use");
        }
        let export = if self.c.chance(1, 5) {
            self.label("exported-declaration");
            "export "
        } else {
            ""
        };
        self.decls.push(Decl {
            text: format!("{export}{text}"),
            after,
        });
    }

    fn lit(&self, m: &[Prop]) -> String {
        if m.is_empty() {
            return "{}".into();
        }
        let ms: Vec<String> = m.iter().map(|p| p.member()).collect();
        format!("{{ {} }}", ms.join("; "))
    }

    /// a *name* (alias or interface) denoting M - needed after `extends`
    fn named(&mut self, m: &[Prop], depth: usize) -> String {
        if self.c.bool() {
            let name = self.fresh("A");
            let inner = self.enc(m, depth + 1);
            self.push_decl(format!("type {name} = {inner};"));
            self.label("alias");
            name
        } else {
            self.iface(m, depth)
        }
    }

    fn iface(&mut self, m: &[Prop], depth: usize) -> String {
        let name = self.fresh("I");
        // split: parents take a prefix
        let mut rest: Vec<Prop> = m.to_vec();
        let mut parents = vec![];
        if depth < 4 && rest.len() >= 2 && self.c.chance(1, 2) {
            let np = self.c.range(1, 2);
            for _ in 0..np {
                if rest.len() < 2 {
                    break;
                }
                let take = self.c.range(1, rest.len() - 1);
                let part: Vec<Prop> = rest.drain(..take).collect();
                // the heritage clause may itself be a utility type: `extends Partial<Base>`
                let no_getter = part.iter().all(|p| p.kind != Kind::Getter);
                if no_getter && part.iter().all(|p| p.optional) && self.c.chance(1, 3) {
                    let mut m2 = part.clone();
                    for p in m2.iter_mut() {
                        p.optional = self.c.bool();
                    }
                    self.label("extends-utility-type");
                    let base = self.named(&m2, depth + 1);
                    parents.push(format!("Partial<{base}>"));
                    continue;
                }
                if no_getter && part.iter().all(|p| !p.optional) && self.c.chance(1, 3) {
                    let mut m2 = part.clone();
                    for p in m2.iter_mut() {
                        p.optional = self.c.bool();
                    }
                    self.label("extends-utility-type");
                    let base = self.named(&m2, depth + 1);
                    parents.push(format!("Required<{base}>"));
                    continue;
                }
                parents.push(self.named(&part, depth + 1));
            }
            self.label("interface-extends");
        }
        let ext = if parents.is_empty() {
            String::new()
        } else {
            format!(" extends {}", parents.join(", "))
        };
        if rest.len() >= 2 && self.c.chance(1, 3) {
            // merged declarations
            let cut = self.c.range(1, rest.len() - 1);
            let a = self.lit(&rest[..cut]);
            let b = self.lit(&rest[cut..]);
            self.push_decl(format!("interface {name}{ext} {a}"));
            self.push_decl(format!("interface {name} {b}"));
            self.label("interface-merged");
        } else {
            let body = self.lit(&rest);
            self.push_decl(format!("interface {name}{ext} {body}"));
        }
        self.label("interface");
        name
    }

    fn keys_type(&mut self, keys: &[String]) -> String {
        let lits: Vec<String> = keys.iter().map(|k| format!("\"{k}\"")).collect();
        let union = lits.join(" | ");
        match self.c.pick(3) {
            0 => union,
            1 => {
                let name = self.fresh("K");
                self.push_decl(format!("type {name} = {union};"));
                self.label("keys-alias");
                name
            }
            _ => {
                if lits.len() >= 2 {
                    // nested union through an alias of part of it
                    let name = self.fresh("K");
                    self.push_decl(format!("type {name} = {};", lits[1..].join(" | ")));
                    self.label("keys-alias");
                    format!("{} | {name}", lits[0])
                } else {
                    union
                }
            }
        }
    }

    /// a type expression whose members are exactly M
    pub fn enc(&mut self, m: &[Prop], depth: usize) -> String {
        self.depth_reached = self.depth_reached.max(depth);
        if depth >= 5 {
            return self.lit(m);
        }
        let all_optional = !m.is_empty() && m.iter().all(|p| p.optional && p.kind != Kind::Getter);
        let all_required = !m.is_empty() && m.iter().all(|p| !p.optional && p.kind != Kind::Getter);
        let w = self.c.weighted(&[
            6,
            3,
            3,
            if m.len() >= 2 { 3 } else { 0 },
            1,
            if all_optional { 4 } else { 0 },
            if all_required { 3 } else { 0 },
            2,
            2,
            2,
        ]);
        match w {
            0 => self.lit(m),
            1 => {
                let hops = self.c.range(1, 3);
                let mut inner = self.enc(m, depth + 1);
                let mut name = String::new();
                for _ in 0..hops {
                    name = self.fresh("A");
                    self.push_decl(format!("type {name} = {inner};"));
                    inner = name.clone();
                }
                self.label(if hops > 1 { "alias-chain" } else { "alias" });
                name
            }
            2 => self.iface(m, depth),
            3 => {
                let cut = self.c.range(1, m.len() - 1);
                let a = self.enc(&m[..cut], depth + 1);
                let b = self.enc(&m[cut..], depth + 1);
                self.label("intersection");
                format!("{a} & {b}")
            }
            4 => {
                self.label("parenthesised");
                format!("({})", self.enc(m, depth + 1))
            }
            5 => {
                // Partial<M'> : M' = M with arbitrary flags
                let mut m2 = m.to_vec();
                for p in m2.iter_mut() {
                    p.optional = self.c.bool();
                }
                self.label("Partial");
                format!("Partial<{}>", self.enc(&m2, depth + 1))
            }
            6 => {
                let mut m2 = m.to_vec();
                for p in m2.iter_mut() {
                    p.optional = self.c.bool();
                }
                self.label("Required");
                format!("Required<{}>", self.enc(&m2, depth + 1))
            }
            7 | 8 => {
                // Pick / Omit over a widened map
                let nd = self.c.range(1, 2);
                let mut decoys = vec![];
                for _ in 0..nd {
                    if let Some(p) = self.prop() {
                        decoys.push(p);
                    }
                }
                if decoys.is_empty() || (w == 7 && m.is_empty()) {
                    return self.lit(m);
                }
                let mut wide: Vec<Prop> = vec![];
                // interleave
                let mut di = decoys.iter();
                for p in m {
                    if self.c.bool() {
                        if let Some(d) = di.next() {
                            wide.push(d.clone());
                        }
                    }
                    wide.push(p.clone());
                }
                wide.extend(di.cloned());
                let inner = self.enc(&wide, depth + 1);
                if w == 7 {
                    let keys: Vec<String> = m.iter().map(|p| p.key.clone()).collect();
                    self.label("Pick");
                    format!("Pick<{inner}, {}>", self.keys_type(&keys))
                } else {
                    let keys: Vec<String> = decoys.iter().map(|p| p.key.clone()).collect();
                    self.label("Omit");
                    format!("Omit<{inner}, {}>", self.keys_type(&keys))
                }
            }
            _ => {
                // indexed access into a box
                let name = self.fresh("Box");
                let inner = self.enc(m, depth + 1);
                if self.c.bool() {
                    self.push_decl(format!("interface {name} {{ other: string; k: {inner} }}"));
                } else {
                    self.push_decl(format!("type {name} = {{ k: {inner}; \"o-2\"?: number }};"));
                }
                self.label("indexed-access");
                match self.c.pick(4) {
                    0 => {
                        // nested access through a wrapper (different keys at the two levels)
                        let w = self.fresh("Wrap");
                        self.push_decl(format!("type {w} = {{ outer: {name}; k: {{ outer: 1 }} }};"));
                        self.label("nested-indexed-access");
                        format!("{w}[\"outer\"][\"k\"]")
                    }
                    1 => format!("{name}[(\"k\")]"),
                    _ => format!("{name}[\"k\"]"),
                }
            }
        }
    }
}

// --------------------------------------------------------------------------------------------
// C17: type expressions with expected constructors and inhabitants

#[derive(Clone, Debug)]
pub struct RtType {
    pub text: String,
    /// expected constructor names; "null" for the null value; None = no check (any/unknown)
    pub ctors: Option<Vec<String>>,
    /// when the statement only bounds the set (Exclude / Extract): (must-contain, may-contain)
    pub loose: Option<(Vec<String>, Vec<String>)>,
    /// sample inhabitants as env value specs (JSON text)
    pub inhabitants: Vec<serde_json::Value>,
    pub depth: usize,
}

fn inh(kind: &str) -> serde_json::Value {
    use serde_json::json;
    match kind {
        "String" => json!({"k":"str","v":"s"}),
        "Number" => json!({"k":"num","v":1}),
        "Boolean" => json!({"k":"bool","v":true}),
        "BigInt" => json!({"k":"big","v":"10"}),
        "BigInt#lit" => json!({"k":"big","v":"1","lit":true}),
        "Symbol" => json!({"k":"sym","v":"d"}),
        "Object" => json!({"k":"obj","v":{"a":{"k":"num","v":1}}}),
        "Function" => json!({"k":"fn","id":"inh","ret":{"k":"undef"}}),
        "Array" => json!({"k":"arr","v":[{"k":"num","v":1}]}),
        "null" => json!({"k":"null"}),
        other => json!({"k":"instance","v":other}),
    }
}

fn union_ctors(parts: &[&RtType]) -> Option<Vec<String>> {
    let mut out: Vec<String> = vec![];
    for p in parts {
        match &p.ctors {
            None => return None,
            Some(cs) => {
                for c in cs {
                    if !out.contains(c) {
                        out.push(c.clone());
                    }
                }
            }
        }
    }
    Some(out)
}

/// constructor set and bounds of a union of parts
pub fn merge(parts: &[&RtType]) -> (Option<Vec<String>>, Option<(Vec<String>, Vec<String>)>) {
    let ctors = union_ctors(parts);
    if ctors.is_none() {
        return (None, None);
    }
    if parts.iter().all(|p| p.loose.is_none()) {
        return (ctors, None);
    }
    let mut must: Vec<String> = vec![];
    let mut may: Vec<String> = vec![];
    for p in parts {
        let (m, x) = match &p.loose {
            Some((m, x)) => (m.clone(), x.clone()),
            None => {
                let c = p.ctors.clone().unwrap_or_default();
                (c.clone(), c)
            }
        };
        must.extend(m);
        may.extend(x);
    }
    (ctors, Some((must, may)))
}

pub struct RtGen<'a, 'b> {
    pub c: &'a mut Choices<'b>,
    pub decls: Vec<String>,
    pub labels: Vec<String>,
    fresh: usize,
}

impl<'a, 'b> RtGen<'a, 'b> {
    pub fn new(c: &'a mut Choices<'b>) -> Self {
        RtGen {
            c,
            decls: vec![],
            labels: vec![],
            fresh: 0,
        }
    }
    fn label(&mut self, l: &str) {
        if !self.labels.iter().any(|x| x == l) {
            self.labels.push(l.to_string());
        }
    }
    fn fresh(&mut self, p: &str) -> String {
        self.fresh += 1;
        format!("{p}{}", self.fresh)
    }
    fn mk(text: impl Into<String>, ctors: &[&str], depth: usize) -> RtType {
        RtType {
            text: text.into(),
            ctors: Some(ctors.iter().map(|s| s.to_string()).collect()),
            loose: None,
            inhabitants: ctors.iter().map(|c| inh(c)).collect(),
            depth,
        }
    }

    pub fn atom(&mut self) -> RtType {
        let atoms: &[(&str, &[&str])] = &[
            ("string", &["String"]),
            ("number", &["Number"]),
            ("boolean", &["Boolean"]),
            ("object", &["Object"]),
            ("bigint", &["BigInt"]),
            ("symbol", &["Symbol"]),
            ("null", &["null"]),
            ("\"lit\"", &["String"]),
            ("1", &["Number"]),
            ("true", &["Boolean"]),
            ("1n", &["BigInt#lit"]),
            ("`t${string}`", &["String"]),
            ("(a: number) => string", &["Function"]),
            ("new () => Date", &["Function"]),
            ("string[]", &["Array"]),
            ("[string, number]", &["Array"]),
            ("{ a: string }", &["Object"]),
            ("{ (): void }", &["Function"]),
            ("{}", &["Object"]),
            ("Array<string>", &["Array"]),
            ("Function", &["Function"]),
            ("Object", &["Object"]),
            ("Date", &["Date"]),
            ("Map<string, number>", &["Map"]),
            ("Set<string>", &["Set"]),
            ("WeakMap<object, number>", &["WeakMap"]),
            ("WeakSet<object>", &["WeakSet"]),
            ("Promise<string>", &["Promise"]),
            ("RegExp", &["RegExp"]),
            ("Error", &["Error"]),
        ];
        // keyword types the statement does not name (`undefined`, `void`): no constructor is
        // required, the null value is tolerated; a callable object type may also be given Object
        if self.c.chance(1, 16) {
            self.label("atom=undefined/void/callable-object");
            return match self.c.pick(3) {
                0 | 1 => RtType {
                    text: if self.c.bool() { "undefined".into() } else { "void".into() },
                    ctors: Some(vec![]),
                    loose: Some((vec![], vec!["null".into()])),
                    inhabitants: vec![],
                    depth: 0,
                },
                _ => RtType {
                    text: "{ (): void; extra: string }".into(),
                    ctors: Some(vec!["Function".into()]),
                    loose: Some((vec!["Function".into()], vec!["Function".into(), "Object".into()])),
                    inhabitants: vec![inh("Function")],
                    depth: 0,
                },
            };
        }
        // types whose values are known although the statement does not spell the construct out:
        // bounds plus the inhabitant test (Vue must accept the values of the declared type)
        if self.c.chance(1, 12) {
            self.label("atom=wrapper/readonly/inherited-callable/array-length");
            let nocheck = "*nocheck".to_string();
            return match self.c.pick(7) {
                5 => {
                    // a type imported from another module: nothing is known about its values
                    let n = self.fresh("Imp");
                    self.decls.push(format!("import type {{ {n} }} from \"other-types\";"));
                    self.label("atom=imported-or-unknown-library-type");
                    RtType {
                        text: n,
                        ctors: None,
                        loose: None,
                        inhabitants: vec![inh("String"), inh("Number"), inh("Function")],
                        depth: 0,
                    }
                }
                6 => {
                    // a library type the transform has no table entry for
                    self.label("atom=imported-or-unknown-library-type");
                    let (t, inhs): (&str, Vec<serde_json::Value>) = match self.c.pick(3) {
                        0 => ("VoidFunction", vec![inh("Function")]),
                        1 => ("PropertyKey", vec![inh("String"), inh("Number"), inh("Symbol")]),
                        _ => ("Awaited<string>", vec![inh("String")]),
                    };
                    RtType { text: t.into(), ctors: None, loose: None, inhabitants: inhs, depth: 0 }
                }
                0 => RtType {
                    text: self.c.choose(&["Array<string>[\"length\"]", "string[][\"length\"]", "[string, number][\"length\"]"]).to_string(),
                    ctors: Some(vec!["Number".into()]),
                    loose: Some((vec![], vec!["Number".into(), nocheck])),
                    inhabitants: vec![inh("Number")],
                    depth: 1,
                },
                1 => {
                    let w = self.c.choose(&["String", "Number", "Boolean"]).to_string();
                    RtType {
                        text: w.clone(),
                        ctors: Some(vec![w.clone()]),
                        loose: Some((vec![], vec![w.clone(), "Object".into(), nocheck])),
                        inhabitants: vec![inh(&w)],
                        depth: 0,
                    }
                }
                2 => Self::mk(self.c.choose(&["readonly string[]", "readonly [string, number]", "readonly (readonly number[])[]"]), &["Array"], 1),
                3 => {
                    let cb = self.fresh("CB");
                    let nc = self.fresh("NC");
                    self.decls.push(format!("interface {cb} {{ (): void }}"));
                    self.decls.push(format!("interface {nc} extends {cb} {{}}"));
                    RtType {
                        text: nc,
                        ctors: Some(vec!["Function".into()]),
                        loose: Some((vec![], vec!["Function".into(), "Object".into(), nocheck])),
                        inhabitants: vec![inh("Function")],
                        depth: 1,
                    }
                }
                _ => {
                    let nc = self.fresh("NF");
                    self.decls.push(format!("interface {nc} extends Function {{ tag?: string }}"));
                    RtType {
                        text: nc,
                        ctors: Some(vec!["Function".into()]),
                        loose: Some((vec![], vec!["Function".into(), "Object".into(), nocheck])),
                        inhabitants: vec![inh("Function")],
                        depth: 1,
                    }
                }
            };
        }
        let i = self.c.pick(atoms.len() + 2);
        if i >= atoms.len() {
            let t = if i == atoms.len() { "any" } else { "unknown" };
            self.label("atom=any/unknown");
            return RtType {
                text: t.into(),
                ctors: None,
                loose: None,
                inhabitants: vec![inh("String"), inh("Object"), inh("Number"), inh("Function")],
                depth: 0,
            };
        }
        let (t, cs) = atoms[i];
        if t == "{}" {
            // `{}` is inhabited by every non-nullish value
            self.label("atom={}");
            let mut r = Self::mk(t, cs, 0);
            r.inhabitants = vec![inh("Object")];
            return r;
        }
        if t == "1n" {
            self.label("atom=bigint-literal");
        }
        Self::mk(t, cs, 0)
    }

    pub fn ty(&mut self, depth: usize) -> RtType {
        if depth >= 4 {
            return self.atom();
        }
        match self.c.weighted(&[8, 5, 3, 2, 2, 3, 3, 2, 2]) {
            0 => self.atom(),
            1 => {
                // union
                let a = self.ty(depth + 1);
                let b = self.ty(depth + 1);
                self.label("union");
                let (ctors, loose) = merge(&[&a, &b]);
                let mut inhabitants = a.inhabitants.clone();
                inhabitants.extend(b.inhabitants.clone());
                RtType {
                    text: format!("{} | {}", paren_if_fn(&a.text), paren_if_fn(&b.text)),
                    ctors,
                    loose,
                    inhabitants,
                    depth: a.depth.max(b.depth) + 1,
                }
            }
            2 => {
                // alias indirection
                let inner = self.ty(depth + 1);
                let hops = self.c.range(1, 2);
                let mut text = inner.text.clone();
                for _ in 0..hops {
                    let n = self.fresh("R");
                    self.decls.push(format!("type {n} = {text};"));
                    text = n;
                }
                self.label("alias");
                RtType {
                    text,
                    depth: inner.depth + 1,
                    ..inner
                }
            }
            3 => {
                let inner = self.ty(depth + 1);
                self.label("parenthesised");
                RtType {
                    text: format!("({})", inner.text),
                    depth: inner.depth + 1,
                    ..inner
                }
            }
            4 => {
                // array / tuple indexing
                let inner = self.ty(depth + 1);
                self.label("array-index");
                let text = match self.c.pick(7) {
                    6 => {
                        // an index at / past the end of the tuple: nothing is known about it
                        self.label("tuple-index-out-of-range");
                        let text = match self.c.pick(4) {
                            0 => format!("[{}, boolean][2]", paren_if_fn(&inner.text)),
                            1 => format!("[{}][1]", paren_if_fn(&inner.text)),
                            2 => "[][0]".to_string(),
                            _ => format!("[{}, boolean][7]", paren_if_fn(&inner.text)),
                        };
                        return RtType {
                            text,
                            ctors: None,
                            loose: None,
                            inhabitants: vec![],
                            depth: inner.depth + 1,
                        };
                    }
                    0 => format!("({})[][number]", inner.text),
                    // the array type itself in parentheses
                    5 => format!("(({})[])[number]", inner.text),
                    1 => format!("[{}, {}][0]", paren_if_fn(&inner.text), "boolean"),
                    4 => {
                        // optional tuple element: `T | undefined`
                        self.label("optional-tuple-element");
                        let (ctors, loose) = {
                            let c = inner.ctors.clone();
                            match c {
                                None => (None, None),
                                Some(cs) => {
                                    let (must, may) = inner.loose.clone().unwrap_or((cs.clone(), cs.clone()));
                                    let mut may = may;
                                    if !may.contains(&"null".to_string()) {
                                        may.push("null".into());
                                    }
                                    (Some(cs), Some((must, may)))
                                }
                            }
                        };
                        return RtType {
                            text: format!("[boolean, ({})?][1]", inner.text),
                            ctors,
                            loose,
                            inhabitants: inner.inhabitants.clone(),
                            depth: inner.depth + 1,
                        };
                    }
                    2 => format!("Array<{}>[number]", inner.text),
                    _ => {
                        // tuple[number] = union of elements
                        let other = self.atom();
                        let (ctors, loose) = merge(&[&inner, &other]);
                        let mut inhabitants = inner.inhabitants.clone();
                        inhabitants.extend(other.inhabitants.clone());
                        return RtType {
                            text: format!("[{}, {}][number]", paren_if_fn(&inner.text), paren_if_fn(&other.text)),
                            ctors,
                            loose,
                            inhabitants,
                            depth: inner.depth + 1,
                        };
                    }
                };
                RtType {
                    text,
                    depth: inner.depth + 1,
                    ..inner
                }
            }
            5 => {
                // property indexing through interface / alias
                let a = self.ty(depth + 1);
                let b = self.ty(depth + 1);
                let n = self.fresh("H");
                let iface = self.c.bool();
                if self.c.chance(1, 5) {
                    // index signature: `H[string]` is the member type
                    self.label("index-signature-index");
                    if iface {
                        self.decls.push(format!("interface {n} {{ [k: string]: {} }}", a.text));
                    } else {
                        self.decls.push(format!("type {n} = {{ [k: string]: {} }};", a.text));
                    }
                    return RtType {
                        text: format!("{n}[string]"),
                        depth: a.depth + 1,
                        ..a
                    };
                }
                let getter = self.c.chance(1, 3);
                // (`a` written as a getter: same value type)
                let a_member = if getter {
                    self.label("getter-member-index");
                    format!("get a(): {}", a.text)
                } else if self.c.chance(1, 4) {
                    // a computed string-literal key is a statically known key
                    self.label("computed-literal-member-index");
                    format!("[\"a\"]: {}", a.text)
                } else {
                    format!("a: {}", a.text)
                };
                if iface {
                    self.decls.push(format!("interface {n} {{ {a_member}; \"b-2\": {}; m(): void }}", b.text));
                } else {
                    self.decls.push(format!("type {n} = {{ {a_member}; \"b-2\": {}; m(): void }};", b.text));
                }
                self.label("property-index");
                match self.c.pick(7) {
                    4 => RtType {
                        // parenthesised key
                        text: format!("{n}[(\"a\")]"),
                        depth: a.depth + 1,
                        ..a
                    },
                    5 => {
                        // nested access through a wrapper object
                        let w = self.fresh("W");
                        self.decls.push(format!("type {w} = {{ inner: {n}; other: 1 }};"));
                        self.label("nested-property-index");
                        RtType {
                            text: format!("{w}[\"inner\"][\"a\"]"),
                            depth: a.depth + 2,
                            ..a
                        }
                    }
                    6 => {
                        // a member inherited through `extends`: the transform does not look at
                        // parents here, so only the bounds are demanded (no check is acceptable,
                        // rejecting an inhabitant is not)
                        let d = self.fresh("D");
                        if iface {
                            self.decls.push(format!("interface {d} extends {n} {{ own: 1 }}"));
                        } else {
                            self.decls.push(format!("type {d}Base = {n};\ninterface {d} extends {d}Base {{ own: 1 }}"));
                        }
                        self.label("inherited-member-index");
                        if self.c.chance(1, 3) {
                            // an inherited and an own member in one index union: whatever is
                            // emitted must accept the values of both
                            self.label("inherited-and-own-member-index-union");
                            let own = Self::mk("1", &["Number"], 0);
                            let (ctors, _) = merge(&[&a, &own]);
                            let loose = ctors.clone().map(|c| {
                                let mut may = c;
                                if let Some(l) = &a.loose {
                                    may.extend(l.1.clone());
                                }
                                may.push("*nocheck".into());
                                (vec![], may)
                            });
                            let mut inhabitants = a.inhabitants.clone();
                            inhabitants.extend(own.inhabitants.clone());
                            return RtType {
                                text: format!("{d}[\"a\" | \"own\"]"),
                                ctors,
                                loose,
                                inhabitants,
                                depth: a.depth + 1,
                            };
                        }
                        let cs = a.ctors.clone();
                        let loose = cs.clone().map(|c| {
                            let mut may = a.loose.as_ref().map(|l| l.1.clone()).unwrap_or(c);
                            // "*nocheck": giving up the runtime check altogether is acceptable
                            may.push("*nocheck".into());
                            (vec![], may)
                        });
                        RtType {
                            text: format!("{d}[\"a\"]"),
                            ctors: cs,
                            loose,
                            inhabitants: a.inhabitants.clone(),
                            depth: a.depth + 1,
                        }
                    }
                    0 => RtType {
                        text: format!("{n}[\"a\"]"),
                        depth: a.depth + 1,
                        ..a
                    },
                    1 => {
                        let (ctors, loose) = merge(&[&a, &b]);
                        let mut inhabitants = a.inhabitants.clone();
                        inhabitants.extend(b.inhabitants.clone());
                        RtType {
                            text: format!("{n}[\"a\" | \"b-2\"]"),
                            ctors,
                            loose,
                            inhabitants,
                            depth: a.depth.max(b.depth) + 1,
                        }
                    }
                    2 => RtType {
                        text: format!("{n}[\"m\"]"),
                        ctors: Some(vec!["Function".into()]),
                        loose: None,
                        inhabitants: vec![inh("Function")],
                        depth: 1,
                    },
                    _ => {
                        let f = Self::mk("", &["Function"], 0);
                        let (ctors, loose) = merge(&[&a, &b, &f]);
                        let mut inhabitants = a.inhabitants.clone();
                        inhabitants.extend(b.inhabitants.clone());
                        inhabitants.push(inh("Function"));
                        RtType {
                            text: format!("{n}[string]"),
                            ctors,
                            loose,
                            inhabitants,
                            depth: a.depth.max(b.depth) + 1,
                        }
                    }
                }
            }
            6 => {
                // utility wrappers with fixed result
                let inner = self.ty(depth + 1);
                self.label("utility");
                let (text, ctor): (String, &str) = match self.c.pick(12) {
                    0 => (format!("Partial<{{ a: {} }}>", inner.text), "Object"),
                    1 => (format!("Required<{{ a?: {} }}>", inner.text), "Object"),
                    2 => (format!("Readonly<{{ a: {} }}>", inner.text), "Object"),
                    3 => (format!("Record<string, {}>", inner.text), "Object"),
                    4 => (format!("Pick<{{ a: {}; b: 1 }}, \"a\">", inner.text), "Object"),
                    5 => (format!("Omit<{{ a: {}; b: 1 }}, \"b\">", inner.text), "Object"),
                    6 => ("InstanceType<typeof Date>".into(), "Object"),
                    7 => ("Uppercase<\"a\">".into(), "String"),
                    8 => ("Lowercase<string>".into(), "String"),
                    9 => ("Capitalize<\"ab\">".into(), "String"),
                    10 => (format!("Parameters<(a: {}) => void>", inner.text), "Array"),
                    _ => ("ConstructorParameters<typeof Error>".into(), "Array"),
                };
                let mut r = Self::mk(text, &[ctor], inner.depth + 1);
                if ctor == "Object" && r.text.starts_with("InstanceType") {
                    r.inhabitants = vec![inh("Date")];
                }
                r
            }
            7 => {
                // NonNullable
                let inner = if self.c.chance(1, 2) {
                    // a union whose null is not the last member, with Boolean and String both
                    // present (their declaration order is part of the statement)
                    self.label("NonNullable-over-nullable-boolean-string-union");
                    let mut members: Vec<(&str, &[&str])> =
                        vec![("null", &["null"]), ("boolean", &["Boolean"]), ("string", &["String"])];
                    if self.c.bool() {
                        members.push(("number", &["Number"]));
                    }
                    // random permutation (Fisher-Yates over the choice sequence)
                    for i in (1..members.len()).rev() {
                        let j = self.c.pick(i + 1);
                        members.swap(i, j);
                    }
                    let parts: Vec<RtType> = members.iter().map(|(t, cs)| Self::mk(*t, cs, 0)).collect();
                    let refs: Vec<&RtType> = parts.iter().collect();
                    RtType {
                        text: parts.iter().map(|p| p.text.clone()).collect::<Vec<_>>().join(" | "),
                        ctors: union_ctors(&refs),
                        loose: None,
                        inhabitants: parts.iter().flat_map(|p| p.inhabitants.clone()).collect(),
                        depth: 1,
                    }
                } else {
                    self.ty(depth + 1)
                };
                self.label("NonNullable");
                let ctors = inner.ctors.clone().map(|cs| cs.into_iter().filter(|c| c != "null").collect::<Vec<_>>());
                let inhabitants: Vec<_> = inner
                    .inhabitants
                    .iter()
                    .filter(|v| v["k"] != "null")
                    .cloned()
                    .collect();
                RtType {
                    text: format!("NonNullable<{}>", inner.text),
                    ctors,
                    loose: inner.loose.clone().map(|(m, x)| {
                        (
                            m.into_iter().filter(|c| c != "null").collect(),
                            x.into_iter().filter(|c| c != "null").collect(),
                        )
                    }),
                    inhabitants,
                    depth: inner.depth + 1,
                }
            }
            _ => {
                // Exclude / Extract: the statement only says "union of their parts"
                let a = self.ty(depth + 1);
                let b = self.atom();
                let ac = a.ctors.clone();
                let bc = b.ctors.clone();
                if ac.is_none() || bc.is_none() {
                    // any / unknown inside Exclude / Extract: conditional types over `any` are
                    // outside what the statement describes
                    return a;
                }
                self.label("Exclude/Extract");
                if self.c.bool() {
                    // Exclude<A, B>: values of A not in B; inhabitants: those of A whose ctor is not in B
                    let bset = bc.clone().unwrap_or_default();
                    let inhabitants: Vec<_> = if bc.is_none() {
                        vec![]
                    } else {
                        a.inhabitants
                            .iter()
                            .filter(|v| !bset.contains(&ctor_of(v)))
                            .cloned()
                            .collect()
                    };
                    // (bounds of the part itself count when it only has bounds)
                    let may = a.loose.as_ref().map(|l| l.1.clone()).unwrap_or(ac.clone().unwrap_or_default());
                    let must: Vec<String> = vec![]; // containment only; inhabitant acceptance carries the weight
                    RtType {
                        text: format!("Exclude<{}, {}>", a.text, b.text),
                        ctors: if ac.is_none() { None } else { Some(may.clone()) },
                        loose: if ac.is_none() { None } else { Some((must, may)) },
                        inhabitants,
                        depth: a.depth + 1,
                    }
                } else {
                    let aset = ac.clone().unwrap_or_default();
                    let inhabitants: Vec<_> = if ac.is_none() || bc.is_none() {
                        vec![]
                    } else {
                        b.inhabitants
                            .iter()
                            .filter(|v| aset.contains(&ctor_of(v)))
                            .cloned()
                            .collect()
                    };
                    let may: Vec<String> = [
                        a.loose.as_ref().map(|l| l.1.clone()).unwrap_or(ac.clone().unwrap_or_default()),
                        b.loose.as_ref().map(|l| l.1.clone()).unwrap_or(bc.clone().unwrap_or_default()),
                    ]
                    .concat();
                    let must: Vec<String> = vec![]; // containment only; inhabitant acceptance carries the weight
                    let unchecked = ac.is_none() || bc.is_none();
                    RtType {
                        text: format!("Extract<{}, {}>", a.text, b.text),
                        ctors: if unchecked { None } else { Some(may.clone()) },
                        loose: if unchecked { None } else { Some((must, may)) },
                        inhabitants,
                        depth: a.depth + 1,
                    }
                }
            }
        }
    }
}

fn ctor_of(v: &serde_json::Value) -> String {
    match v["k"].as_str().unwrap_or("") {
        "str" => "String".into(),
        "num" => "Number".into(),
        "bool" => "Boolean".into(),
        "big" => {
            if v["lit"] == true {
                "BigInt#lit".into()
            } else {
                "BigInt".into()
            }
        }
        "sym" => "Symbol".into(),
        "obj" => "Object".into(),
        "fn" => "Function".into(),
        "arr" => "Array".into(),
        "null" => "null".into(),
        "instance" => v["v"].as_str().unwrap_or("").to_string(),
        _ => "?".into(),
    }
}

fn paren_if_fn(t: &str) -> String {
    if t.contains("=>") || t.starts_with("new ") {
        format!("({t})")
    } else {
        t.to_string()
    }
}
