//! Whole-module JS/JSX/TSX grammar generator (text level) with feature tracking.
//! Used by the structural / black-box properties (C07, C08, C09, C12, C14).
//! Constructive: every decoded case is intended to be syntactically valid; the parser is
//! only a cross-check (rejections are counted as discards).

use crate::choices::Choices;

#[derive(Default, Clone, Debug)]
pub struct Feat {
    pub jsx: usize,
    pub unusual: Vec<&'static str>,
    pub contexts: Vec<&'static str>,
    /// element has an attribute literally named `on` or `nativeOn`
    pub on_attr: bool,
    /// a spread attribute, or the same attribute name twice on one element, or a v-model(s)
    /// (which synthesises listener props) next to anything else
    pub spread_or_repeat: bool,
    /// a component-looking tag whose only child is an identifier or call expression
    pub sole_ident_or_call_child: bool,
    /// some tag could be matched by one of the pattern pools
    pub custom_tag: bool,
    pub define_component: bool,
    pub ts_types: bool,
    pub directive: bool,
    pub vmodel: bool,
    pub pragma_comment: bool,
    pub fragment: bool,
    pub depth: usize,
    pub adversarial: Vec<&'static str>,
}

impl Feat {
    fn unusual(&mut self, s: &'static str) {
        if !self.unusual.contains(&s) {
            self.unusual.push(s);
        }
    }
    fn adv(&mut self, s: &'static str) {
        if !self.adversarial.contains(&s) {
            self.adversarial.push(s);
        }
    }
    fn ctx(&mut self, s: &'static str) {
        if !self.contexts.contains(&s) {
            self.contexts.push(s);
        }
    }
}

#[derive(Clone, Debug)]
pub struct Knobs {
    pub tsx: bool,
    /// allow the legal-but-unusual JSX forms
    pub unusual: bool,
    /// adversarial forms for totality (cyclic types, deep nesting, ...)
    pub adversarial: bool,
    /// allow JSX at all
    pub jsx: bool,
    pub pragma_comments: bool,
    pub max_items: usize,
    pub max_depth: usize,
    /// forms that are known to stack-overflow (excluded by construction while listed as known)
    pub allow_cyclic_types: bool,
    /// always import vue's defineComponent and end the module with a call of it
    pub force_define_component: bool,
}

impl Default for Knobs {
    fn default() -> Self {
        Knobs {
            tsx: false,
            unusual: true,
            adversarial: false,
            jsx: true,
            pragma_comments: true,
            max_items: 5,
            max_depth: 3,
            allow_cyclic_types: true,
            force_define_component: false,
        }
    }
}

pub struct G<'a, 'b> {
    pub c: &'a mut Choices<'b>,
    pub k: Knobs,
    pub f: Feat,
    fresh: usize,
    /// names of locally declared types (tsx)
    types: Vec<String>,
    in_async: bool,
    /// is the element whose attributes are being generated a component host?
    cur_comp: bool,
    in_generator: bool,
    /// the local name `defineComponent` is bound to something that is not vue's defineComponent
    alias_dc: bool,
}

pub const BOUND_VALUES: &[&str] = &["a", "b", "x", "y", "o", "f", "g", "xs", "p", "q", "m", "sl"];
pub const BOUND_COMPS: &[&str] = &["C", "D", "NS"];
pub const UNBOUND_VALUES: &[&str] = &["u", "w"];
const HTML_TAGS: &[&str] = &[
    "div", "span", "input", "select", "textarea", "a", "p", "button", "svg", "circle",
    "linearGradient", "ul", "li",
];
const CUSTOM_TAGS: &[&str] = &["i-x", "my-el", "foo-el-bar", "IonCard"];
const UNBOUND_COMPS: &[&str] = &["Foo", "foo", "my-comp", "Bar", "_Fragment", "KeepAlive", "Fragment"];
const ATTR_NAMES: &[&str] = &[
    "id", "class", "style", "key", "ref", "title", "onClick", "onFoo", "onUpdate:modelValue",
    "type", "value", "data-x", "aria-label", "once", "only", "o", "on", "nativeOn", "model",
    "innerHTML", "xlink:href", "a:b", "modelValue", "_", "$", "is", "v1", "v_size", "v$", "v",
    // names that differ from another one only in case
    "Title", "onclick", "ID", "Class",
    // namespaced names whose namespace part is spelled like another feature
    "on:click", "nativeOn:focus", "class:x", "key:k", "ref:r",
];
const DIR_NAMES: &[&str] = &[
    "v-show", "v-foo", "v-foo-bar", "vFoo", "vFooBar", "v-html", "v-text", "v-model",
    "v-models", "v-slots", "vModel", "vShow", "vHtml", "vSlots", "v-x", "vX", "v-visible", "v-vv",
    "v-étiquette", "v-Étiquette", "v-日本",
];
const MODS: &[&str] = &["_a", "_b", "_trim", "_lazy", "_a_b", "_", "__a", "_1"];
const DIR_ARGS: &[&str] = &[":arg", ":a-b", ":modelValue", ":x_y", ":arg_m", ":arg_m1_m2", ":_m"];

impl<'a, 'b> G<'a, 'b> {
    pub fn new(c: &'a mut Choices<'b>, k: Knobs) -> Self {
        G {
            c,
            k,
            f: Feat::default(),
            fresh: 0,
            types: vec![],
            in_async: false,
            cur_comp: false,
            in_generator: false,
            alias_dc: false,
        }
    }

    fn fresh(&mut self, p: &str) -> String {
        self.fresh += 1;
        format!("{p}{}", self.fresh)
    }

    pub fn module(&mut self) -> String {
        let mut out = String::new();
        if self.k.pragma_comments && self.c.chance(1, 6) {
            out.push_str(&self.pragma_comment());
            out.push('\n');
        }
        if self.c.chance(1, 10) {
            self.f.ctx("module-directive-prologue");
            out.push_str("\"use client\";\n");
        }
        out.push_str(
            "import { a, b, x, y, o, f, g, xs, p, q, m, sl, C, D, NS } from \"env\";\n",
        );
        // optional user imports from vue
        let imp = if self.k.force_define_component {
            // mostly the real binding; sometimes another vue export under that local name
            if self.c.chance(1, 6) { 6 } else { 2 }
        } else {
            self.c.weighted(&[10, 2, 2, 2, 1, 1, 1])
        };
        match imp {
            0 => {}
            6 => {
                // the local name `defineComponent` bound to something else from 'vue': its calls
                // are ordinary code (has_dc stays false: they are written as plain calls below)
                self.f.ctx("other-vue-export-named-defineComponent");
                out.push_str(self.c.choose(&[
                    "import { defineCustomElement as defineComponent } from \"vue\";\n",
                    "import defineComponent from \"vue\";\n",
                    "import * as defineComponent from \"vue\";\n",
                ]));
                self.alias_dc = true;
            }
            1 => out.push_str("import { Fragment } from \"vue\";\n"),
            2 => {
                out.push_str("import { defineComponent } from \"vue\";\n");
                self.f.define_component = true; // the name is bound to vue's
            }
            3 => out.push_str("import { KeepAlive, h } from \"vue\";\n"),
            4 => out.push_str("import * as Vue from \"vue\";\n"),
            _ => out.push_str("import { Fragment as _Fragment } from \"vue\";\n"),
        }
        let has_dc = self.f.define_component;
        if self.k.tsx && self.c.chance(1, 2) {
            let n = self.c.range(1, 3);
            for _ in 0..n {
                let d = self.type_decl(0);
                out.push_str(&d);
                out.push('\n');
            }
        }
        let n = self.c.range(1, self.k.max_items);
        for _ in 0..n {
            if self.k.pragma_comments && self.c.chance(1, 16) {
                out.push_str(&self.pragma_comment());
                out.push('\n');
            }
            let it = self.item(has_dc);
            out.push_str(&it);
            out.push('\n');
        }
        if self.k.force_define_component {
            let it = self.define_component_item(!self.alias_dc);
            out.push_str(&it);
            out.push('\n');
        }
        out
    }

    fn pragma_comment(&mut self) -> String {
        self.f.pragma_comment = true;
        let texts = [
            "/* @jsx h */",
            "/** @jsx h */",
            "// @jsx h",
            "/* @jsx custom */",
            "/** @jsxImportSource vue */",
            "/* @jsxRuntime classic */",
            "/* @jsxFrag F */",
            "/* @jsx h trailing words */",
            "/* @jsx */",
            "/* plain comment mentioning @jsx mid sentence */",
            "/**\n * @jsx h\n */",
            "/* jsx h */",
            "/* @jsx custo? */",
            "/** @jsx 1x */",
            "// @jsx a..b",
            "/* @jsx Vue.h */",
        ];
        let i = self.c.pick(texts.len());
        if i >= 4 {
            self.f.unusual("pragma-odd");
        }
        texts[i].to_string()
    }

    fn item(&mut self, has_dc: bool) -> String {
        let w = self.c.weighted(&[8, 4, 4, 3, 3, 2, 2, 2, 2, 2, 2, 2, 2, 2]);
        match w {
            0 => {
                let n = self.fresh("k");
                let e = self.expr(0);
                format!("export const {n} = {e};")
            }
            1 => {
                let n = self.fresh("fn");
                // async functions and generators: `await` / `yield` may appear in JSX children
                let kind = self.c.weighted(&[6, 1, 1]);
                self.in_async = kind == 1;
                self.in_generator = kind == 2;
                let body = if kind == 0 {
                    self.block(1)
                } else {
                    let j = self.jsx(1);
                    format!("{{\n  return {j};\n}}")
                };
                self.in_async = false;
                self.in_generator = false;
                self.f.ctx(match kind { 0 => "function", 1 => "async-function", _ => "generator-function" });
                let head = match kind { 0 => "function", 1 => "async function", _ => "function*" };
                format!("export {head} {n}(arg0, arg1 = {}) {body}", self.small_expr(1))
            }
            2 => {
                self.f.ctx("class");
                self.class_decl()
            }
            3 => {
                let n = self.fresh("v");
                let e = self.expr(0);
                let e2 = self.expr(0);
                self.f.ctx("assign");
                if self.c.chance(1, 3) {
                    // a reassigned variable as the sole child of a component, in an arrow with an
                    // expression body / a block body / at statement level (the captured copy)
                    self.f.jsx += 1;
                    self.f.sole_ident_or_call_child = true;
                    self.f.ctx("reassigned-variable-as-sole-child");
                    let m = self.fresh("k");
                    return match self.c.pick(3) {
                        0 => format!("let {n} = {e};\n{n} = {e2};\nexport const {m} = () => <C>{{{n}}}</C>;"),
                        1 => format!("let {n} = {e};\n{n} = {e2};\nexport const {m} = () => {{ return <C>{{{n}}}</C>; }};"),
                        _ => format!("let {n} = {e};\n{n} = {e2};\nexport const {m} = <C>{{{n}}}</C>;"),
                    };
                }
                format!("let {n} = {e};\n{n} = {e2};")
            }
            4 => {
                self.f.ctx("if");
                let t = self.small_expr(1);
                let b1 = self.block(1);
                let b2 = self.block(1);
                format!("if ({t}) {b1} else {b2}")
            }
            5 => {
                self.f.ctx("for");
                let b = self.block(1);
                match self.c.pick(3) {
                    0 => format!("for (const it of xs) {b}"),
                    1 => format!("for (let i = 0; i < 1; i++) {b}"),
                    _ => format!("while (f()) {b}"),
                }
            }
            6 => {
                self.f.ctx("try");
                let b1 = self.block(1);
                let b2 = self.block(1);
                let b3 = self.block(1);
                format!("try {b1} catch (err) {b2} finally {b3}")
            }
            7 => {
                self.f.ctx("switch");
                let e1 = self.expr(1);
                let e2 = self.expr(1);
                format!(
                    "switch (x) {{ case 1: g({e1}); break; default: {{ g({e2}); }} }}"
                )
            }
            8 => {
                self.f.ctx("labelled");
                let b = self.block(1);
                format!("lbl: {b}")
            }
            9 => {
                let e = self.expr(0);
                format!("g({e});")
            }
            10 => {
                if has_dc || self.k.tsx {
                    self.define_component_item(has_dc)
                } else {
                    let e = self.expr(0);
                    format!("x.y = {e};")
                }
            }
            11 => {
                if self.k.tsx {
                    self.type_decl(0)
                } else {
                    let e = self.expr(0);
                    format!("export const {} = () => {e};", self.fresh("arrow"))
                }
            }
            12 => {
                self.f.ctx("iife");
                let b = self.block(1);
                format!("(function () {b})();")
            }
            _ => {
                self.f.ctx("static-block");
                let n = self.fresh("K");
                let b = self.block(1);
                format!("class {n} {{ static {b} }}")
            }
        }
    }

    fn class_decl(&mut self) -> String {
        let n = self.fresh("K");
        let mut s = format!("export class {n} {{\n");
        let k = self.c.range(1, 3);
        for _ in 0..k {
            match self.c.pick(5) {
                0 => {
                    self.f.ctx("class-field");
                    let e = self.expr(1);
                    let f = self.fresh("fld");
                    s.push_str(&format!("  {f} = {e};\n"));
                }
                1 => {
                    self.f.ctx("method");
                    let b = self.block(2);
                    let f = self.fresh("mth");
                    s.push_str(&format!("  {f}(arg0) {b}\n"));
                }
                2 => {
                    self.f.ctx("getter");
                    let e = self.expr(2);
                    let f = self.fresh("get");
                    s.push_str(&format!("  get {f}() {{ return {e}; }}\n"));
                }
                3 => {
                    self.f.ctx("static-field");
                    let e = self.expr(1);
                    let f = self.fresh("sf");
                    s.push_str(&format!("  static {f} = {e};\n"));
                }
                _ => {
                    self.f.ctx("setter");
                    let e = self.expr(2);
                    let f = self.fresh("set");
                    s.push_str(&format!("  set {f}(v) {{ g({e}); }}\n"));
                }
            }
        }
        s.push('}');
        s
    }

    fn block(&mut self, depth: usize) -> String {
        let n = self.c.range(1, 3);
        let mut s = String::from("{\n");
        if self.c.chance(1, 8) {
            // directive prologue: whatever the transform adds must come after it
            self.f.ctx("directive-prologue");
            // (not "use strict": illegal in a function with a non-simple parameter list)
            s.push_str(self.c.choose(&["  \"use memo\";\n", "  'worklet';\n", "  \"use server\";\n  \"use asm\";\n"]));
        }
        for _ in 0..n {
            let st = self.stmt(depth);
            s.push_str("  ");
            s.push_str(&st);
            s.push('\n');
        }
        s.push('}');
        s
    }

    fn stmt(&mut self, depth: usize) -> String {
        if depth > self.k.max_depth {
            return format!("g({});", self.small_expr(depth));
        }
        match self.c.weighted(&[6, 4, 3, 2, 2, 2, 2]) {
            0 => {
                let n = self.fresh("l");
                let e = self.expr(depth);
                format!("const {n} = {e};")
            }
            1 => {
                let e = self.expr(depth);
                format!("g({e});")
            }
            2 => {
                let n = self.fresh("r");
                let e = self.expr(depth);
                let e2 = self.expr(depth);
                format!("let {n};\n  {n} = {e};\n  {n} = {e2};")
            }
            3 => {
                let b = self.block(depth + 1);
                self.f.ctx("nested-block");
                b
            }
            4 => {
                let t = self.small_expr(depth);
                let b = self.block(depth + 1);
                format!("if ({t}) {b}")
            }
            5 => {
                let n = self.fresh("inner");
                let b = self.block(depth + 1);
                self.f.ctx("inner-function");
                format!("function {n}() {b}")
            }
            _ => {
                let e = self.expr(depth);
                format!("x = {e};")
            }
        }
    }

    fn ident(&mut self) -> String {
        if self.c.chance(1, 8) {
            self.c.choose(UNBOUND_VALUES).to_string()
        } else {
            self.c.choose(BOUND_VALUES).to_string()
        }
    }

    pub fn small_expr(&mut self, _depth: usize) -> String {
        match self.c.pick(10) {
            0 => self.ident(),
            1 => "1".into(),
            2 => "\"s\"".into(),
            3 => "f()".into(),
            4 => "o.p".into(),
            5 => "null".into(),
            6 => "true".into(),
            7 => "undefined".into(),
            8 => "xs[0]".into(),
            _ => "`t${x}`".into(),
        }
    }

    pub fn expr(&mut self, depth: usize) -> String {
        if depth > self.k.max_depth {
            return self.small_expr(depth);
        }
        let jsx_w = if self.k.jsx { 14 } else { 0 };
        match self.c.weighted(&[jsx_w, 6, 3, 3, 2, 2, 2, 2, 2, 2, 2, 2]) {
            0 => self.jsx(depth),
            1 => self.small_expr(depth),
            2 => {
                self.f.ctx("arrow-expr");
                let e = self.expr(depth + 1);
                // object-literal / sequence bodies need parens; all our exprs are safe except
                // objects, which `expr` always parenthesises itself
                format!("(() => {e})")
            }
            3 => {
                self.f.ctx("arrow-block");
                let b = self.block(depth + 1);
                format!("((arg0) => {b})")
            }
            4 => {
                let t = self.small_expr(depth);
                let a = self.expr(depth + 1);
                let b = self.expr(depth + 1);
                format!("({t} ? {a} : {b})")
            }
            5 => {
                let a = self.expr(depth + 1);
                let b = self.expr(depth + 1);
                let op = self.c.choose(&["&&", "||", "??", "+", ","]);
                format!("({a} {op} {b})")
            }
            6 => {
                let a = self.expr(depth + 1);
                let b = self.expr(depth + 1);
                format!("({{ k: {a}, [x]: {b}, m() {{ return 1; }}, ...p }})")
            }
            7 => {
                let a = self.expr(depth + 1);
                format!("[{a}, ...xs, , 2]")
            }
            8 => {
                let a = self.expr(depth + 1);
                format!("f({a}, ...xs)")
            }
            9 => {
                self.f.ctx("function-expr");
                let b = self.block(depth + 1);
                format!("(function named(arg0 = {}) {b})", self.small_expr(depth))
            }
            10 => {
                self.f.ctx("default-param");
                let e = self.expr(depth + 1);
                format!("((arg0 = {e}) => arg0)")
            }
            _ => {
                let e = self.expr(depth + 1);
                if self.k.tsx && self.c.bool() {
                    format!("({e} as any)")
                } else {
                    format!("(x = {e})")
                }
            }
        }
    }

    // ---------------------------------------------------------------------------------------
    // JSX

    pub fn jsx(&mut self, depth: usize) -> String {
        self.f.jsx += 1;
        self.f.depth = self.f.depth.max(depth);
        if self.c.chance(1, 8) {
            self.f.fragment = true;
            let ch = self.children(depth + 1, false);
            return format!("<>{ch}</>");
        }
        self.element(depth)
    }

    fn tag(&mut self) -> (String, bool) {
        // returns (tag text, component-looking)
        let unusual = self.k.unusual;
        let w = self.c.weighted(&[8, 3, 5, 3, 3, if unusual { 2 } else { 0 }]);
        match w {
            0 => (self.c.choose(HTML_TAGS).to_string(), false),
            1 => {
                self.f.custom_tag = true;
                (self.c.choose(CUSTOM_TAGS).to_string(), true)
            }
            2 => (self.c.choose(BOUND_COMPS).to_string(), true),
            3 => {
                let t = self.c.choose(UNBOUND_COMPS).to_string();
                if t == "Fragment" || t == "_Fragment" {
                    self.f.fragment = true;
                }
                if t.contains('-') {
                    // `my-comp` could be matched by an unanchored pattern such as "el"? no, but
                    // be conservative for C14: any hyphenated or lower-case unknown tag counts
                    self.f.custom_tag = true;
                }
                (t, true)
            }
            4 => {
                let t = self.c.choose(&[
                    "NS.C", "NS.a.B", "o.Comp", "this.C", "this.a.b", "NS.KeepAlive", "NS.Fragment",
                    "NS.el", "o.model", "NS.a.myEl", "NS.k-1", "o.x-y.C", "NS.a.b-c-",
                    // hyphenated object: no identifier can be built (diagnostic expected)
                    "a-b.c",
                ]);
                if t.starts_with("this") {
                    self.f.unusual("this-member-tag");
                }
                (t.to_string(), true)
            }
            _ => {
                self.f.unusual("namespaced-tag");
                self.f.custom_tag = true;
                (self.c.choose(&["ns:tag", "svg:circle", "v-x:y"]).to_string(), true)
            }
        }
    }

    fn element(&mut self, depth: usize) -> String {
        let (tag, comp) = self.tag();
        self.cur_comp = comp;
        // any tag text one of the pattern pools could match (conservative for C14)
        // (member-expression tags are never custom elements: no pattern governs them)
        if !tag.contains('.')
            && (tag.contains("el")
                || tag.starts_with("i-")
                || tag.starts_with("my-")
                || tag.starts_with("Ion")
                || tag.contains(':'))
        {
            self.f.custom_tag = true;
        }
        let nattrs = self.c.weighted(&[4, 5, 4, 3, 2, 1]);
        let mut names: Vec<String> = vec![];
        let mut s = format!("<{tag}");
        let mut had_vmodel = false;
        for _ in 0..nattrs {
            let (txt, name) = self.attr(depth);
            if let Some(n) = name {
                if names.contains(&n) {
                    self.f.spread_or_repeat = true;
                }
                if n.starts_with("v-model") || n.starts_with("vModel") {
                    had_vmodel = true;
                }
                // props a directive synthesises count as written names
                let low = n.to_ascii_lowercase();
                if low.starts_with("v-html") || low.starts_with("vhtml") {
                    if names.contains(&"innerHTML".to_string()) {
                        self.f.spread_or_repeat = true;
                    }
                    names.push("innerHTML".into());
                }
                if low.starts_with("v-text") || low.starts_with("vtext") {
                    if names.contains(&"textContent".to_string()) {
                        self.f.spread_or_repeat = true;
                    }
                    names.push("textContent".into());
                }
                if names.contains(&n) {
                    self.f.spread_or_repeat = true;
                }
                names.push(n);
            }
            s.push(' ');
            s.push_str(&txt);
        }
        if had_vmodel {
            // v-model synthesises `onUpdate:*` (and on components `modelValue`) props which
            // may repeat a written one; treat as "repeat" for non-interference labelling
            self.f.spread_or_repeat = true;
        }
        if depth >= self.k.max_depth || self.c.chance(1, 3) {
            s.push_str(" />");
            return s;
        }
        s.push('>');
        s.push_str(&self.children(depth + 1, comp));
        s.push_str(&format!("</{tag}>"));
        s
    }

    fn attr_value(&mut self, depth: usize) -> String {
        let unusual = self.k.unusual;
        match self.c.weighted(&[5, 6, 3, if unusual { 1 } else { 0 }]) {
            0 => {
                let v = self.c.choose(&[
                    "\"s\"", "\"a b\"", "\" x \"", "\"\"", "'q\"q'", "\"l1\n   l2\"", "\"&amp;\"", "\"C:\\users\\x\"", "'\\1'", "\"end\\\"", "\"cr\r\"", "\"\r\"",
                ]);
                v.to_string()
            }
            1 => format!("{{{}}}", self.expr(depth + 1)),
            2 => {
                let v = self.c.choose(&["{1}", "{[1, \"a\"]}", "{{ a: 1 }}", "{undefined}", "{[x]}", "{{ a: x }}", "{`t`}", "{/re/g}", "{{ undefined }}"]);
                v.to_string()
            }
            _ => {
                self.f.unusual("jsx-attr-value");
                if self.c.bool() {
                    "<b />".into()
                } else {
                    "<></>".into()
                }
            }
        }
    }

    /// returns (text, attribute name if any)
    fn attr(&mut self, depth: usize) -> (String, Option<String>) {
        match self.c.weighted(&[10, 3, 5]) {
            0 => {
                let name = self.c.choose(ATTR_NAMES).to_string();
                if name == "on" || name == "nativeOn" {
                    self.f.on_attr = true;
                }
                if self.c.chance(1, 6) {
                    return (name.clone(), Some(name));
                }
                let v = if name == "on" || name == "nativeOn" {
                    match self.c.pick(4) {
                        0 => "{{ click: f, keyUp: g }}".to_string(),
                        1 => "{o}".to_string(),
                        2 => "{f()}".to_string(),
                        _ => self.attr_value(depth),
                    }
                } else {
                    self.attr_value(depth)
                };
                (format!("{name}={v}"), Some(name))
            }
            1 => {
                self.f.spread_or_repeat = true;
                let v = match self.c.pick(4) {
                    0 => "p".to_string(),
                    1 => "{ id: x, class: \"c\" }".to_string(),
                    2 => "f()".to_string(),
                    _ => format!("{{ k: {} }}", self.small_expr(depth)),
                };
                (format!("{{...{v}}}"), None)
            }
            _ => self.directive(depth),
        }
    }

    fn directive(&mut self, depth: usize) -> (String, Option<String>) {
        self.f.directive = true;
        let mut base = self.c.choose(DIR_NAMES).to_string();
        if (base == "v-slots" || base == "vSlots") && !self.cur_comp && !self.c.chance(1, 6) {
            // (reported on hosts whose children are not slots: keep most modules diagnostic-free)
            base = "v-foo".to_string();
        }
        let mut name = base.clone();
        if self.c.chance(1, 4) {
            name.push_str(self.c.choose(DIR_ARGS));
            if !base.starts_with("v-") {
                // vFoo:arg is fine too
            }
        } else if self.c.chance(1, 4) {
            name.push_str(self.c.choose(MODS));
        }
        let is_model = base == "v-model" || base == "vModel" || base == "v-models";
        if is_model {
            self.f.vmodel = true;
        }
        let unusual = self.k.unusual;
        let target = if self.in_async && depth == 1 && self.c.chance(1, 3) {
            // the target is copied into the listener, a function of its own
            self.f.unusual("vmodel-target-with-await");
            self.c.choose(&["(await g(1)).x", "o[await f()]"])
        } else if unusual && self.c.chance(1, 12) {
            // readable but not assignable in a module: must be reported, not assigned to
            // (`arguments` itself is illegal in class fields, where a site may be placed)
            self.f.unusual("vmodel-target-eval");
            self.c.choose(&["eval", "(eval)"])
        } else {
            if self.c.chance(1, 12) {
                // not assignable at all: to be reported (and nothing may crash afterwards)
                self.f.unusual("vmodel-target-not-assignable");
                self.c.choose(&["x + y", "f()", "{ a: 1 }", "-x", "1"])
            } else {
                self.c.choose(&["m", "o.p", "o[x]", "xs[0]", "o.a.b"])
            }
        };
        let val_kind = self.c.weighted(&[
            8,
            4,
            3,
            3,
            3,
            if unusual { 2 } else { 0 },
            if unusual { 2 } else { 0 },
            if unusual { 2 } else { 0 },
            if unusual { 1 } else { 0 },
        ]);
        let v = |s: &str| if is_model { target.to_string() } else { s.to_string() };
        let val = match val_kind {
            0 => format!("={{{}}}", v("x")),
            1 => format!("={{[{}]}}", v("x")),
            2 => format!("={{[{}, \"arg\"]}}", v("x")),
            3 => format!("={{[{}, [\"m1\", \"m2\"]]}}", v("x")),
            4 => format!("={{[{}, {}, [\"m\"]]}}", v("x"), self.c.choose(&["\"arg\"", "y", "f()"])),
            5 => {
                self.f.unusual("directive-valueless");
                String::new()
            }
            6 => {
                self.f.unusual("directive-string");
                // JSX strings have entities and no escapes: backslashes must not reach the output raw
                self.c
                    .choose(&["=\"str\"", "=\"C:\\users\\x &amp; y\"", "='q\\1\"'", "=\"end\\\"", "=\"\\d+\\x\""])
                    .into()
            }
            7 => {
                self.f.unusual("directive-odd-array");
                self.c
                    .choose(&[
                        "={[]}",
                        "={[...q]}",
                        "={[, x]}",
                        "={[x, , [\"m\"]]}",
                        "={[x, \"arg\", [\"a-b\", \"1x\"]]}",
                        "={[x, [\"m\", y, ...q]]}",
                        "={[x, \"a\", \"b\", \"c\"]}",
                        "={[x, [\"class\"], [\"z\"]]}",
                        "={[[a, \"b\"], [o.p, [\"m\"]], x, ...q, [xs[0], y, [\"k\"]]]}",
                        "={{ a: () => 1 }}",
                        "={[[m]]}",
                    ])
                    .to_string()
            }
            _ => {
                self.f.unusual("directive-jsx-value");
                self.f.adv("directive-jsx-value");
                if self.c.bool() {
                    "=<b />".into()
                } else {
                    "=<></>".into()
                }
            }
        };
        if base == "v-slots" || base == "vSlots" {
            let vv = match self.c.pick(4) {
                0 => "={sl}".to_string(),
                1 => "={{ named: () => 1 }}".to_string(),
                2 => format!("={{{{ a: () => {} }}}}", self.expr(depth + 1)),
                _ => val,
            };
            return (format!("{name}{vv}"), Some(name));
        }
        if base == "v-models" {
            let vv = match self.c.pick(3) {
                0 => "={[[m, \"a\"], [o.p, [\"trim\"]]]}".to_string(),
                1 => "={[[m], [o.p, \"b\", [\"x\"]], [xs[0], y]]}".to_string(),
                _ => val,
            };
            return (format!("{name}{vv}"), Some(name));
        }
        (format!("{name}{val}"), Some(name))
    }

    fn children(&mut self, depth: usize, comp: bool) -> String {
        let n = self.c.weighted(&[3, 6, 3, 2, 1]);
        let mut s = String::new();
        let mut kinds = vec![];
        let mut last_text = false;
        for _ in 0..n {
            let mut k = self.c.weighted(&[4, 5, 4, 1, 1, 1, 2]);
            if (k == 0 || k == 6) && last_text {
                k = 4; // adjacent text runs would merge: separate them
            }
            last_text = k == 0 || k == 6;
            kinds.push(k);
            match k {
                0 => s.push_str(self.c.choose(&[
                    "text", " spaced out ", "\n  line\n  two\n", "a&amp;b", "&nbsp;", " ",
                    // lone carriage returns, also as the very last character of the run
                    // (none of these may clean to the empty string: the feature labels count
                    // every text piece as an effective child)
                    "cr\r", "a\r\n b\r", "x&#13;", "x&#10;",
                ])),
                1 => {
                    let e = match self.c.pick(6) {
                        // `await` / `yield` children where the enclosing function allows them
                        // (only as direct children of the function's root element: deeper JSX may
                        // sit inside a nested arrow, where they would be illegal in the input)
                        _ if self.in_async && depth == 2 && self.c.chance(1, 2) => {
                            self.f.unusual("await-or-yield-child");
                            match self.c.pick(5) {
                                0 | 1 => "await f()".to_string(),
                                2 => "f(await g(1))".to_string(),
                                // the heritage and the computed keys of a class belong to the
                                // enclosing function
                                3 => "class extends (await g(1)) {}".to_string(),
                                _ => "class { [await g(1)]() {} static [await f()] = 1; }".to_string(),
                            }
                        }
                        _ if self.in_generator && depth == 2 && self.c.chance(1, 2) => {
                            self.f.unusual("await-or-yield-child");
                            "yield 1".to_string()
                        }
                        0 => {
                            if n == 1 && comp {
                                self.f.sole_ident_or_call_child = true;
                            }
                            self.ident()
                        }
                        1 => {
                            if n == 1 && comp {
                                self.f.sole_ident_or_call_child = true;
                            }
                            "f()".to_string()
                        }
                        2 => "() => 1".to_string(),
                        3 => "{ default: () => 1, named: f }".to_string(),
                        _ => {
                            let e = self.expr(depth + 1);
                            if n == 1 && comp {
                                // `expr` may itself be an identifier / call
                                self.f.sole_ident_or_call_child = true;
                            }
                            e
                        }
                    };
                    s.push_str(&format!("{{{e}}}"));
                }
                2 => {
                    if depth < self.k.max_depth + 1 {
                        s.push_str(&self.jsx(depth));
                    } else {
                        s.push_str("<i />");
                        self.f.jsx += 1;
                    }
                }
                3 => s.push_str("{}"),
                4 => s.push_str("{/* c */}"),
                5 => s.push_str("{...xs}"),
                _ => s.push_str("\n  "),
            }
        }
        // effective children: empty expressions, comments and line-break whitespace vanish
        let eff: Vec<&usize> = kinds.iter().filter(|k| matches!(**k, 0 | 1 | 2 | 5)).collect();
        if comp && eff.len() == 1 && *eff[0] == 1 {
            self.f.sole_ident_or_call_child = true;
        }
        s
    }

    // ---------------------------------------------------------------------------------------
    // TS

    fn type_name(&mut self) -> String {
        if !self.types.is_empty() && self.c.chance(2, 3) {
            let i = self.c.pick(self.types.len());
            self.types[i].clone()
        } else {
            self.c
                .choose(&["string", "number", "boolean", "Foo", "Date", "any", "null", "Imported"])
                .to_string()
        }
    }

    pub fn ts_type(&mut self, depth: usize) -> String {
        if depth > 3 {
            return self.type_name();
        }
        match self.c.weighted(&[6, 3, 3, 2, 2, 2, 2, 2, 2, 1, 1]) {
            0 => self.type_name(),
            1 => {
                let a = self.ts_type(depth + 1);
                let b = self.ts_type(depth + 1);
                format!("{a} | {b}")
            }
            2 => {
                let a = self.ts_type(depth + 1);
                let b = self.ts_type(depth + 1);
                let k = self.c.choose(&["k1", "\"k-2\"", "k3?", "[x]", "1", "get g()"]);
                if k.starts_with("get") {
                    format!("{{ {k}: {a}; m(): void; (e: \"ev\"): {b} }}")
                } else {
                    format!("{{ {k}: {a}; m?(): void; n: {b} }}")
                }
            }
            3 => format!("({})[]", self.ts_type(depth + 1)),
            4 => {
                let a = self.ts_type(depth + 1);
                let b = self.ts_type(depth + 1);
                format!("{a} & {b}")
            }
            5 => {
                let u = self.c.choose(&["Partial", "Required", "Readonly", "NonNullable", "Array", "Promise"]);
                format!("{u}<{}>", self.ts_type(depth + 1))
            }
            6 => {
                let u = self.c.choose(&["Pick", "Omit", "Exclude", "Extract", "Record"]);
                let a = self.ts_type(depth + 1);
                let b = match self.c.pick(3) {
                    0 => "\"k1\"".to_string(),
                    1 => "\"k1\" | \"n\"".to_string(),
                    _ => self.ts_type(depth + 1),
                };
                format!("{u}<{a}, {b}>")
            }
            7 => {
                let a = self.ts_type(depth + 1);
                let i = match self.c.pick(5) {
                    0 => "\"k1\"".to_string(),
                    1 => "number".to_string(),
                    2 => "0".to_string(),
                    3 => "string".to_string(),
                    _ => self.ts_type(depth + 1),
                };
                format!("({a})[{i}]")
            }
            8 => {
                let t = format!("[({}), ({})?]", self.ts_type(depth + 1), self.ts_type(depth + 1));
                // indices at and around the end of the tuple
                match self.c.pick(8) {
                    0 => format!("{t}[2]"),
                    1 => format!("{t}[1]"),
                    2 => format!("{t}[3]"),
                    3 => "[][0]".to_string(),
                    4 => format!("{t}[-1]"),
                    5 => format!("{t}[1.5]"),
                    _ => t,
                }
            }
            9 => {
                self.f.unusual("unsupported-type");
                self.c
                    .choose(&["keyof Foo", "typeof x", "T extends U ? X : Y", "{ [K in \"a\"]: K }", "unique symbol", "`a${string}`", "1n", "-1", "this", "readonly string[]"])
                    .to_string()
            }
            _ => format!("((e: {}, ...r: any[]) => void)", self.ts_type(depth + 1)),
        }
    }

    fn type_decl(&mut self, depth: usize) -> String {
        self.f.ts_types = true;
        let name = if !self.types.is_empty() && self.c.chance(1, 5) {
            // redeclare / merge
            let i = self.c.pick(self.types.len());
            self.types[i].clone()
        } else {
            self.fresh("T")
        };
        let cyc = self.k.adversarial && self.k.allow_cyclic_types && self.c.chance(1, 5);
        let exp = if self.c.chance(1, 4) { "export " } else { "" };
        let r = if self.c.bool() {
            // interface
            let ext = if cyc {
                self.f.adv("cyclic-interface");
                format!(" extends {name}")
            } else if !self.types.is_empty() && self.c.bool() {
                let i = self.c.pick(self.types.len());
                format!(" extends {}", self.types[i])
            } else {
                String::new()
            };
            let a = self.ts_type(depth + 1);
            let b = self.ts_type(depth + 1);
            format!("{exp}interface {name}{ext} {{ p1: {a}; \"p-2\"?: {b}; (e: \"call\"): void; m1(): void }}")
        } else {
            let t = if cyc {
                self.f.adv("cyclic-alias");
                match self.c.pick(7) {
                    0 => name.clone(),
                    1 => format!("{name} | string"),
                    // cycles through parentheses, utility types and nested accesses
                    3 => format!("({name})"),
                    4 => format!("({name})[\"k\"]"),
                    5 => format!("{name}[(\"k\")][\"j\"]"),
                    6 => format!("Partial<{name}> & {{ k: ({name}) }}"),
                    _ => format!("{name}[\"k\"]"),
                }
            } else {
                self.ts_type(depth + 1)
            };
            format!("{exp}type {name} = {t};")
        };
        if !self.types.contains(&name) {
            self.types.push(name);
        }
        r
    }

    fn define_component_item(&mut self, has_dc: bool) -> String {
        let callee = if has_dc || self.alias_dc {
            "defineComponent"
        } else {
            self.c.choose(&["Vue.defineComponent", "f", "defineComponentX"])
        };
        let name = self.fresh("Comp");
        let (p1, p2) = if self.k.tsx {
            let mut t = self.ts_type(0);
            let d = match self.c.pick(8) {
                0 => String::new(),
                // `this` / `super` in the parameter list or the body of a member: such a member
                // cannot be turned into a free-standing function
                7 => {
                    self.f.ctx("this-or-super-in-prop-defaults");
                    if self.c.chance(2, 3) {
                        // the members named below are props
                        t = "{ k1?: string | (() => void); n?: number; m1?: () => void }".to_string();
                    }
                    self.c
                        .choose(&[
                            " = { k1(v = super.toString()) { return v; }, m1() {} }",
                            " = { k1() { return super.toString(); } }",
                            " = { get k1() { return this.n; }, n: 1 }",
                            " = { k1(v = this) { return v; } }",
                            " = { async k1([a] = [super.x]) {} }",
                            " = { k1() { return () => super.x; } }",
                            " = { get k1() { return { [this.n]: 1 }; } }",
                            // `new.target` / `arguments` of the member
                            " = { get k1() { return new.target; } }",
                            " = { get k1() { return arguments.length; } }",
                            " = { k1() { return new.target; } }",
                            " = { k1: new.target }",
                            " = { k1: () => new.target, n: arguments.length }",
                            // the heritage of a nested class belongs to the member
                            " = { k1() { return class extends super.B {}; } }",
                            " = { get k1() { return class { [this.n]() {} }; } }",
                        ])
                        .to_string()
                }
                1 => " = { k1: 1, n: f() }".to_string(),
                2 | 6 => " = p".to_string(),
                3 => " = { ...p, [x]: 1, get k1() { return 1; }, m1() {}, async am() {} }".to_string(),
                // JSX inside the defaults (copied into the derived props option)
                4 => {
                    self.f.jsx += 1;
                    self.f.sole_ident_or_call_child = true; // `<C>{x}</C>` below
                    self.f.ctx("jsx-in-prop-defaults");
                    " = { k1: <b id={x} />, get n() { return <i>t</i>; }, m1() { return <C>{x}</C>; } }".to_string()
                }
                _ => {
                    self.f.jsx += 1;
                    self.f.ctx("jsx-in-prop-defaults");
                    " = f(<div class=\"d\" />, { ...p })".to_string()
                }
            };
            let e = match self.c.pick(4) {
                0 => String::new(),
                1 => format!(", ctx: SetupContext<{}>", self.ts_type(0)),
                2 => ", { emit }: SetupContext<{ (e: \"a\" | \"b\"): void; c: [] }>".to_string(),
                _ => ", ctx".to_string(),
            };
            (format!("props: {t}{d}"), e)
        } else {
            ("props".to_string(), String::new())
        };
        let body = self.expr(1);
        let setup = if self.c.bool() {
            format!("({p1}{p2}) => () => {body}")
        } else {
            format!("function ({p1}{p2}) {{ return () => {body}; }}")
        };
        let opts = match self.c.pick(9) {
            0 | 1 => String::new(),
            2 => ", { name: \"N\" }".to_string(),
            3 => ", { props: [\"z\"], \"emits\": [] }".to_string(),
            4 => ", o".to_string(),
            5 => ", { ...o, inheritAttrs: false }".to_string(),
            6 => ", ...xs, o".to_string(),
            _ => ", ...xs".to_string(),
        };
        if has_dc && self.c.chance(1, 4) {
            // a binding that shadows the vue import: its calls are ordinary code
            self.f.ctx("shadowed-defineComponent");
            return match self.c.pick(3) {
                0 => format!("function mk{name}(defineComponent) {{\n  const {name} = defineComponent({setup}{opts});\n  return {name};\n}}"),
                1 => format!("const mk{name} = () => {{\n  const defineComponent = f;\n  return defineComponent({setup}{opts});\n}};"),
                _ => format!("{{\n  function defineComponent(s) {{ return s; }}\n  g(defineComponent({setup}{opts}));\n}}"),
            };
        }
        if self.c.chance(1, 10) {
            // degenerate argument lists: nothing to augment
            self.f.ctx("defineComponent-degenerate-arguments");
            return match self.c.pick(3) {
                0 => format!("export const {name} = {callee}();"),
                1 => format!("export const {name} = {callee}(...xs{});", self.c.choose(&["", ", o", ", o, o"])),
                _ => format!("export const {name} = {callee}(o, o, o);"),
            };
        }
        // redundant parentheses (the printer drops them: the output must already be final)
        let (setup, callee) = if self.c.chance(1, 6) {
            self.f.ctx("defineComponent-redundant-parentheses");
            match self.c.pick(3) {
                0 => (format!("({setup})"), callee.to_string()),
                1 => (setup, format!("({callee})")),
                _ => (format!("(({setup}))"), format!("({callee})")),
            }
        } else {
            (setup, callee.to_string())
        };
        if self.c.chance(1, 12) {
            self.f.ctx("defineComponent-redundant-parentheses");
            return format!("export const {name} = ({callee}({setup}{opts}));");
        }
        match self.c.pick(4) {
            0 => format!("export const {name} = {callee}({setup}{opts});"),
            1 => format!("export default {callee}({setup}{opts});"),
            2 => format!("let {name};\n{name} = {callee}({setup}{opts});"),
            _ => format!("export const {name} = {callee}({{ setup() {{ return () => {body}; }} }});"),
        }
    }
}

/// Deeply nested element chain (totality / stack depth knob).
pub fn deep_nest(depth: usize, comp: bool) -> String {
    let tag = if comp { "C" } else { "div" };
    let mut s = String::from("import { C, x } from \"env\";\nexport const deep = ");
    for _ in 0..depth {
        s.push_str(&format!("<{tag}>"));
    }
    s.push_str("{x}");
    for _ in 0..depth {
        s.push_str(&format!("</{tag}>"));
    }
    s.push_str(";\n");
    s
}
