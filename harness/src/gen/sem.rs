//! Generator of semantic cases: JSX model + environment + options, decoded from choice bytes.

use serde_json::Value;

use super::jsx::*;
use super::opts::Opts;
use crate::choices::Choices;

#[derive(Clone, Debug)]
pub struct SemCfg {
    pub spreads: bool,
    pub repeats: bool,
    pub on_objects: bool,
    pub directives: bool,
    pub html_text: bool,
    pub vmodel: bool,
    pub vmodels: bool,
    pub vslots: bool,
    pub special_hosts: bool,
    pub max_attrs: usize,
    pub max_children: usize,
    pub max_depth: usize,
    /// draw embedded expressions from logging leaves (C11)
    pub logging: bool,
    /// rich JSX text alphabet (C02)
    pub rich_text: bool,
    /// weight of component hosts (0..=10)
    pub component_weight: usize,
    pub plain_attrs: bool,
    pub children: bool,
    /// user bindings named like generated ones take part in expressions
    pub colliding: bool,
    /// computed v-model arguments (D10's shape) may be generated
    pub vmodel_dynamic_arg: bool,
    /// the module is TSX: v-model targets may carry TS-only wrappers
    pub tsx: bool,
}

impl Default for SemCfg {
    fn default() -> Self {
        SemCfg {
            spreads: true,
            repeats: true,
            on_objects: true,
            directives: false,
            html_text: false,
            vmodel: false,
            vmodels: false,
            vslots: false,
            special_hosts: true,
            max_attrs: 6,
            max_children: 4,
            max_depth: 2,
            logging: false,
            rich_text: false,
            component_weight: 4,
            plain_attrs: true,
            children: true,
            colliding: false,
            vmodel_dynamic_arg: true,
            tsx: false,
        }
    }
}

pub const HTML_TAGS: &[&str] = &[
    "div", "span", "input", "select", "textarea", "a", "p", "button", "svg", "circle",
    "linearGradient",
];
pub const COLLIDING: &[&str] = &[
    "_createVNode", "_createTextVNode", "_Fragment", "_isSlot", "_slot", "_slot2", "_mergeProps",
    "_transformOn", "_isVNode", "_resolveComponent", "_resolveDirective", "_withDirectives", "s", "_x",
    "_vShow", "_vModelText",
];
pub const VALUE_KINDS: &[&str] = &[
    "str", "num", "bool", "null", "undef", "arr", "slotsobj", "vnode", "fn", "obj",
];

pub fn any_value(c: &mut Choices, tag: &str) -> (Value, &'static str) {
    let k = c.pick(VALUE_KINDS.len());
    let v = match k {
        0 => v_str(&format!("{tag}-str")),
        1 => v_num(7.0),
        2 => v_bool(c.bool()),
        3 => v_null(),
        4 => v_undef(),
        5 => v_arr(vec![v_num(1.0), v_str("el")]),
        6 => v_obj(vec![
            ("default", v_fn(&format!("{tag}.default"), v_str(&format!("{tag}-slot-result")))),
            ("named", v_fn(&format!("{tag}.named"), v_num(3.0))),
        ]),
        7 => v_vnode(&format!("{tag}-vnode")),
        8 => v_fn(&format!("{tag}-fn"), v_str(&format!("{tag}-fn-result"))),
        _ => v_obj(vec![("k", v_num(1.0)), ("j", v_str("s"))]),
    };
    (v, VALUE_KINDS[k])
}

pub struct Sem<'a, 'b> {
    pub c: &'a mut Choices<'b>,
    pub cfg: SemCfg,
    pub opts: Opts,
    pub env: Env,
    pub labels: Vec<String>,
    pub uses_fragment_tag: bool,
    pub uses_keepalive_bound: bool,
    pub vm_targets: Vec<String>,
    log_counter: usize,
    /// number of embedded non-trivial expressions
    pub n_exprs: usize,
    pub n_elements: usize,
    pub value_kinds: Vec<(String, &'static str)>,
    /// some JSX text / attribute string consists only of spaces/tabs (no line break)
    pub has_ws_only: bool,
    /// decided once per case: is `KeepAlive` imported from "vue" by the user?
    pub keepalive_is_bound: bool,
    /// logging leaves whose order the statement leaves open (directive values / arguments)
    pub unordered_leaves: Vec<String>,
    /// leaves that may legitimately be evaluated several times in a row (computed v-model argument)
    pub multi_leaves: Vec<String>,
    in_directive: bool,
    /// (mergeable name, log counter right after its latest occurrence) for the current element
    merge_marks: Vec<(String, usize)>,
}

impl<'a, 'b> Sem<'a, 'b> {
    pub fn new(c: &'a mut Choices<'b>, cfg: SemCfg, opts: Opts) -> Self {
        let mut s = Sem {
            c,
            cfg,
            opts,
            env: Env::default(),
            labels: vec![],
            uses_fragment_tag: false,
            uses_keepalive_bound: false,
            vm_targets: vec![],
            log_counter: 0,
            n_exprs: 0,
            n_elements: 0,
            value_kinds: vec![],
            has_ws_only: false,
            keepalive_is_bound: false,
            unordered_leaves: vec![],
            multi_leaves: vec![],
            in_directive: false,
            merge_marks: vec![],
        };
        s.keepalive_is_bound = s.c.bool();
        s.build_env();
        s
    }

    pub fn label(&mut self, l: impl Into<String>) {
        let l = l.into();
        if !self.labels.contains(&l) {
            self.labels.push(l);
        }
    }

    fn build_env(&mut self) {
        let mut bound: Vec<(String, Value)> = vec![];
        for n in ["x", "y", "z"] {
            let (v, k) = any_value(self.c, n);
            self.value_kinds.push((n.to_string(), k));
            bound.push((n.into(), v));
        }
        bound.push(("s1".into(), v_str("sv1")));
        bound.push(("s2".into(), v_str("sv 2")));
        bound.push(("n1".into(), v_num(42.0)));
        bound.push(("b1".into(), v_bool(self.c.bool())));
        let cls = |i: usize, k: usize| match k {
            0 => v_str(&format!("c{i}a")),
            1 => v_arr(vec![
                v_str(&format!("c{i}b")),
                v_obj(vec![(if i == 1 { "c1c" } else { "c2c" }, v_bool(true))]),
            ]),
            _ => v_obj(vec![
                (if i == 1 { "c1d" } else { "c2d" }, v_bool(true)),
                (if i == 1 { "c1e" } else { "c2e" }, v_bool(false)),
            ]),
        };
        let k1 = self.c.pick(3);
        let k2 = self.c.pick(3);
        bound.push(("cls1".into(), cls(1, k1)));
        bound.push(("cls2".into(), cls(2, k2)));
        bound.push((
            "sty1".into(),
            if self.c.bool() {
                v_str("color:red;top:1px")
            } else {
                v_obj(vec![("color", v_str("red")), ("top", v_str("1px"))])
            },
        ));
        bound.push((
            "sty2".into(),
            if self.c.bool() {
                v_str("top:2px;left:3px")
            } else {
                v_obj(vec![("top", v_str("2px")), ("left", v_str("3px"))])
            },
        ));
        for h in ["h1", "h2", "h3"] {
            bound.push((h.into(), v_fn(h, v_undef())));
        }
        // spread sources
        for (i, n) in ["p1", "p2"].iter().enumerate() {
            let bits = self.c.byte();
            let mut kv: Vec<(&str, Value)> = vec![];
            if bits & 1 != 0 {
                kv.push(("id", v_str(&format!("{n}-id"))));
            }
            if bits & 2 != 0 {
                kv.push(("class", v_str(&format!("{n}cls"))));
            }
            if bits & 4 != 0 {
                kv.push((
                    "style",
                    if bits & 64 != 0 {
                        v_str(&format!("margin:{}px", i + 4))
                    } else {
                        v_obj(vec![("margin", v_str(&format!("{}px", i + 4)))])
                    },
                ));
            }
            if bits & 8 != 0 {
                kv.push(("onClick", v_fn(&format!("{n}.onClick"), v_undef())));
            }
            if bits & 16 != 0 {
                kv.push(("title", v_str(&format!("{n}-title"))));
            }
            if bits & 32 != 0 {
                kv.push(("data-a", v_num(i as f64)));
            }
            bound.push((n.to_string(), v_obj(kv)));
        }
        bound.push((
            "ev1".into(),
            v_obj(vec![
                ("focus", v_fn("ev1.focus", v_undef())),
                ("keyUp", v_fn("ev1.keyUp", v_undef())),
            ]),
        ));
        bound.push((
            "ev2".into(),
            // collides with explicit `onClick` listeners on purpose (source order / last-wins)
            v_obj(vec![("click", v_fn("ev2.click", v_undef()))]),
        ));
        for n in ["f1", "f2"] {
            let (v, k) = any_value(self.c, n);
            self.value_kinds.push((format!("{n}()"), k));
            bound.push((n.to_string(), v_fn(n, v)));
        }
        let (oa, _) = any_value(self.c, "o1.a");
        let (oq, _) = any_value(self.c, "o1.p.q");
        bound.push((
            "o1".into(),
            v_obj(vec![
                ("a", oa),
                ("b", v_str("o1-b")),
                ("p", v_obj(vec![("q", oq)])),
                ("m", v_fn("o1.m", v_str("o1-m-result"))),
                // a slots object reached through a member expression (`v-slots={o1.sl}`)
                ("sl", v_obj(vec![("viaMember", v_fn("o1.sl.viaMember", v_str("o1-sl-result")))])),
            ]),
        ));
        bound.push((
            "xs1".into(),
            v_arr(vec![v_str("xs1-0"), v_num(1.0), v_vnode("xs1-2")]),
        ));
        bound.push((
            "fxs".into(),
            v_fn("fxs", v_arr(vec![v_str("fxs-0"), v_vnode("fxs-1")])),
        ));
        bound.push(("IonBound".into(), v_comp("IonBound")));
        bound.push(("C1".into(), v_comp("C1")));
        bound.push(("C2".into(), v_comp("C2")));
        // names that merely start like the fragment names: ordinary components
        bound.push(("FragmentList".into(), v_comp("FragmentList")));
        bound.push(("_FragmentHost".into(), v_comp("_FragmentHost")));
        bound.push((
            "NS".into(),
            v_obj(vec![
                ("C", v_comp("NS.C")),
                ("el", v_comp("NS.el")),
                ("k-1", v_comp("NS.k-1")),
                ("button", v_comp("NS.button")),
                ("FragmentGroup", v_comp("NS.FragmentGroup")),
                ("KeepAliveBox", v_comp("NS.KeepAliveBox")),
                ("a", v_obj(vec![("B", v_comp("NS.a.B")), ("div", v_comp("NS.a.div"))])),
            ]),
        ));
        bound.push((
            "sl1".into(),
            v_obj(vec![
                ("named", v_fn("sl1.named", v_str("sl1-named-result"))),
                ("other", v_fn("sl1.other", v_vnode("sl1-other-vnode"))),
            ]),
        ));
        bound.push(("dyn1".into(), v_str("dynArg")));
        if self.cfg.colliding {
            for n in COLLIDING {
                bound.push((n.to_string(), v_str(&format!("user:{n}"))));
            }
            bound.push(("$event".into(), v_obj(vec![("p", v_str("$event.p-initial"))])));
        }
        self.env.bound = bound;
        let (u1, k) = any_value(self.c, "u1");
        self.value_kinds.push(("u1".into(), k));
        let (u2, _) = any_value(self.c, "u2");
        self.env.globals = vec![("u1".into(), u1), ("u2".into(), u2)];
        if self.cfg.logging {
            // tracer `t(n)` returns a value per n; logging object `lo`
            let mut rets = serde_json::Map::new();
            for i in 1..=24 {
                let (v, _) = any_value(self.c, &format!("t{i}"));
                rets.insert(i.to_string(), v);
            }
            self.env.globals.push((
                "t".into(),
                serde_json::json!({"k":"tracer","id":"t","rets": rets, "default": {"k":"undef"}}),
            ));
            self.env.globals.push((
                "ta".into(),
                serde_json::json!({"k":"tracer","id":"ta","rets": {}, "default": {"k":"str","v":"dynArg"}}),
            ));
            self.env.globals.push((
                "to".into(),
                serde_json::json!({"k":"tracer","id":"to","rets": {}, "default":
                    {"k":"obj","v":{"focus":{"k":"fn","id":"to.focus","ret":{"k":"undef"}},
                                   "keyUp":{"k":"fn","id":"to.keyUp","ret":{"k":"undef"}}}}}),
            ));
        }
        if let Some(p) = &self.opts.pragma {
            self.env.factories.push(p.clone());
        }
    }

    // ---------------------------------------------------------------------------------------
    // expressions

    fn next_log(&mut self) -> usize {
        self.log_counter += 1;
        self.log_counter
    }

    /// expression of any syntactic category
    pub fn expr(&mut self, depth: usize) -> Ex {
        if self.cfg.logging {
            return self.logging_expr();
        }
        if self.cfg.colliding && self.c.chance(1, 4) {
            self.label("colliding-user-name");
            return Ex::src(self.c.choose(COLLIDING), Cat::IdentBound);
        }
        let jsx_w = if depth < self.cfg.max_depth { 2 } else { 0 };
        let w = self.c.weighted(&[5, 3, 4, 4, 3, 2, 2, 2, 2, 2, jsx_w, jsx_w]);
        let e = match w {
            0 => {
                let n = self.c.choose(&["x", "y", "z", "s1", "n1", "b1"]);
                Ex::src(n, Cat::IdentBound)
            }
            1 => {
                let n = self.c.choose(&["u1", "u2", "undefined"]);
                Ex::src(n, Cat::IdentUnbound)
            }
            2 => {
                let l = self.c.choose(&["\"lit\"", "1", "true", "null", "`tpl`", "0", "\"\"", "/re/g"]);
                Ex::src(l, Cat::Lit)
            }
            3 => {
                let l = self.c.choose(&["f1()", "f2(x)", "o1.m()", "f1(1, \"a\")"]);
                Ex::src(l, Cat::Call)
            }
            4 => {
                let l = self.c.choose(&["o1.a", "o1.p.q", "xs1[0]", "o1[\"b\"]", "xs1[2]"]);
                Ex::src(l, Cat::Member)
            }
            5 => {
                let l = self.c.choose(&[
                    "(b1 ? x : y)", "(x || y)", "(z ?? s1)", "!b1", "typeof x", "(n1 + 1)",
                    "(s1 + \"z\")", "(x, y)", "`t${s1}`", "(x)", "new Object(n1)", "f1?.()", "o1?.a",
                ]);
                Ex::src(l, Cat::Other)
            }
            6 => {
                let l = self.c.choose(&["() => x", "(a) => a", "() => [y, 1]", "async () => 1"]);
                Ex::src(l, Cat::Arrow)
            }
            7 => {
                let l = self.c.choose(&["function () { return y; }", "function named() { return 1; }"]);
                Ex::src(l, Cat::FnExpr)
            }
            8 => {
                let l = self.c.choose(&["[x, 1]", "[1, \"a\"]", "[]", "[[y]]", "[undefined, null]"]);
                Ex::src(l, Cat::ArrLit)
            }
            9 => {
                let l = self.c.choose(&[
                    "{ a: x }", "{ a: 1 }", "{ default: () => y, named: () => 1 }", "{ a: { b: x } }",
                    "{ undefined }", "{ [s1]: 1 }", "{ ...p1 }", "{}",
                    // a hand-written `_` that is not the last entry
                    "{ _: 1, default: () => y, named: () => 1 }",
                ]);
                Ex::src(l, Cat::ObjLit)
            }
            10 => Ex::Jsx(Box::new(self.node(depth + 1))),
            _ => {
                let a = self.node(depth + 1);
                let b = self.node(depth + 1);
                Ex::Tpl {
                    parts: vec!["(b1 ? ".into(), " : ".into(), ")".into()],
                    subs: vec![Ex::Jsx(Box::new(a)), Ex::Jsx(Box::new(b))],
                    cat: Cat::Other,
                }
            }
        };
        if !e.is_trivial_leaf() {
            self.n_exprs += 1;
        }
        e
    }

    fn logging_expr(&mut self) -> Ex {
        self.n_exprs += 1;
        let k = self.next_log();
        if self.in_directive {
            self.unordered_leaves.push(format!("t({k})"));
        }
        Ex::src(format!("t({k})"), Cat::Call)
    }

    /// In logging mode a mergeable name may only repeat while no other logging leaf was
    /// generated since its latest occurrence (then "position of the first occurrence" and
    /// "source order" coincide and the expected trace is unique).
    fn may_repeat(&mut self, name: &str) -> bool {
        if !self.cfg.logging {
            return true;
        }
        match self.merge_marks.iter().find(|(n, _)| n == name) {
            Some((_, mark)) => *mark == self.log_counter,
            None => true,
        }
    }

    fn mark_mergeable(&mut self, name: &str) {
        let c = self.log_counter;
        if let Some(m) = self.merge_marks.iter_mut().find(|(n, _)| n == name) {
            m.1 = c;
        } else {
            self.merge_marks.push((name.to_string(), c));
        }
    }

    /// expression used as a listener value
    fn handler(&mut self, used: &mut Vec<String>) -> Ex {
        if self.cfg.logging {
            return self.logging_expr();
        }
        let pool = ["h1", "h2", "h3"];
        for _ in 0..3 {
            let h = self.c.choose(&pool);
            if !used.contains(&h.to_string()) {
                used.push(h.to_string());
                return Ex::src(h, Cat::IdentBound);
            }
        }
        Ex::src("() => n1", Cat::Arrow)
    }

    // ---------------------------------------------------------------------------------------
    // tags

    pub fn tag(&mut self) -> Tag {
        let cw = self.cfg.component_weight;
        let sp = if self.cfg.special_hosts { 2 } else { 0 };
        let custom_w = if self.opts.patterns.is_empty() { 0 } else { 2 };
        match self.c.weighted(&[10 - cw.min(9), cw, custom_w, sp]) {
            0 => Tag::Html(self.c.choose(HTML_TAGS).to_string()),
            1 => match self.c.pick(6) {
                0 | 1 => Tag::Bound(self.c.choose(&["C1", "C2", "C1", "C2", "FragmentList", "_FragmentHost"]).to_string()),
                // (`NS.el`'s property name is matched by the "el" pattern: still a component)
                // (`NS.button` / `NS.a.div`: the last property is an HTML tag name - still a member host)
                2 => Tag::Member(self.c.choose(&["NS.C", "NS.a.B", "NS.el", "NS.k-1", "NS.button", "NS.a.div", "NS.FragmentGroup", "NS.KeepAliveBox"]).to_string()),
                3 | 4 => Tag::Unbound(self.c.choose(&["Foo", "foo-bar", "Bar", "myComp", "Ünder", "ünder", "日本", "FragmentBox", "KeepAlives"]).to_string()),
                _ => Tag::Bound("C1".into()),
            },
            2 => {
                // a tag the configured patterns match
                // (`IonCard` is unbound, `IonBound` is imported: a pattern-matched tag is the
                // tag string either way)
                let cands: Vec<&str> = ["i-x", "my-el", "foo-el-bar", "i-y", "IonCard", "IonBound"]
                    .iter()
                    .copied()
                    .filter(|t| self.opts_match(t))
                    .collect();
                if cands.is_empty() {
                    Tag::Html("div".into())
                } else {
                    Tag::Custom(self.c.choose(&cands).to_string())
                }
            }
            _ => match self.c.pick(2) {
                0 => {
                    self.uses_fragment_tag = true;
                    Tag::FragmentTag
                }
                _ => {
                    if self.keepalive_is_bound {
                        self.uses_keepalive_bound = true;
                        Tag::KeepAliveBound
                    } else {
                        Tag::KeepAliveUnbound
                    }
                }
            },
        }
    }

    pub fn opts_match(&self, tag: &str) -> bool {
        self.opts.patterns.iter().any(|p| match p.as_str() {
            "^i-" => tag.starts_with("i-"),
            "^my-" => tag.starts_with("my-"),
            "el" => tag.contains("el"),
            "^Ion" => tag.starts_with("Ion"),
            _ => false,
        })
    }

    // ---------------------------------------------------------------------------------------
    // attributes

    fn string_value(&mut self) -> String {
        self.c
            .choose(&[
                "sv", "a b", " lead", "trail ", "  both  ", "in  ner", "l1\nl2", "l1 \n  l2", "\n x \n",
                "tab\there", "", " ", "nb\u{a0}sp", "\u{a0}edge\u{a0}", "cr\rlf", "a\r\n b", "\u{2003}em",
                "a&b", "say \"hi\"", "it's \"x\" & y", "&amp;literal", "<tag> {brace}",
                // JSX strings have no escapes: backslashes are plain characters
                "C:\\users\\x", "q\\1", "\\d+\\x", "end\\", "\\u{zz}",
                // a carriage return as the very last character
                "end\r", "\r",
            ])
            .to_string()
    }

    pub fn attrs(&mut self, tag: &Tag, depth: usize) -> Vec<Attr> {
        let n = self.c.len(self.cfg.max_attrs);
        let saved_marks = std::mem::take(&mut self.merge_marks);
        let mut out = vec![];
        let mut used_plain: Vec<String> = vec![];
        let mut used_handlers: Vec<String> = vec![];
        let mut used_cls: Vec<&str> = vec![];
        let mut used_sty: Vec<&str> = vec![];
        let mut has_vslots = false;
        let mut n_spreads = 0;
        let mut model_args: Vec<String> = vec![];
        for _ in 0..n {
            let w = self.c.weighted(&[
                if self.cfg.plain_attrs { 8 } else { 0 },
                if self.cfg.repeats { 5 } else { 0 },
                if self.cfg.spreads { 3 } else { 0 },
                if self.cfg.on_objects { 2 } else { 0 },
                if self.cfg.directives { 4 } else { 0 },
                if self.cfg.html_text { 1 } else { 0 },
                if self.cfg.vmodel { 3 } else { 0 },
                if self.cfg.vslots && tag.is_component() { 2 } else { 0 },
                if self.cfg.vmodels { 1 } else { 0 },
            ]);
            match w {
                0 => {
                    // plain / namespaced / key / ref attribute (never repeated)
                    let name = self
                        .c
                        .choose(&[
                            "id", "title", "value", "data-x", "aria-label", "foo", "xlink:href", "a:b", "nativeOn:focus",
                            "key", "ref", "type", "once", "modelValue", "innerHTML",
                            // names at the boundary of the directive rule (`v-` / `v[A-Z]` only)
                            "v", "v1", "v_size", "v$", "value2", "vmodel",
                            // differ from another name only in case
                            // (not `Title`: v-model:Title would write the same key twice)
                            "ID", "Key", "Type", "Value",
                        ])
                        .to_string();
                    if used_plain.contains(&name) {
                        continue;
                    }
                    if name == "type" && self.cfg.vmodel {
                        continue; // `type` is chosen by the v-model generator
                    }
                    // names a directive of this configuration also produces would be repeated
                    // non-mergeable names (statement silent)
                    if (name == "innerHTML" && self.cfg.html_text)
                        || (matches!(name.as_str(), "modelValue" | "title" | "foo")
                            && (self.cfg.vmodel || self.cfg.vmodels))
                    {
                        continue;
                    }
                    used_plain.push(name.clone());
                    out.push(self.plain_attr(name, depth));
                }
                1 => {
                    // mergeable names: class / style / listeners - may repeat with distinct values
                    match self.c.pick(4) {
                        0 => {
                            let cands: Vec<&str> = ["static", "cls1", "cls2"]
                                .iter()
                                .copied()
                                .filter(|s| !used_cls.contains(s))
                                .collect();
                            if cands.is_empty() {
                                continue;
                            }
                            if !self.may_repeat("class") {
                                continue;
                            }
                            let s = self.c.choose(&cands);
                            used_cls.push(s);
                            if used_cls.len() > 1 {
                                self.label("repeated-class");
                            }
                            out.push(if s == "static" {
                                Attr::Str {
                                    name: "class".into(),
                                    value: "sa  sb".into(),
                                }
                            } else if self.cfg.logging {
                                Attr::Expr {
                                    name: "class".into(),
                                    e: self.logging_expr(),
                                }
                            } else {
                                Attr::Expr {
                                    name: "class".into(),
                                    e: Ex::src(s, Cat::IdentBound),
                                }
                            });
                        }
                        1 => {
                            let cands: Vec<&str> = ["static", "sty1", "sty2"]
                                .iter()
                                .copied()
                                .filter(|s| !used_sty.contains(s))
                                .collect();
                            if cands.is_empty() {
                                continue;
                            }
                            if !self.may_repeat("style") {
                                continue;
                            }
                            let s = self.c.choose(&cands);
                            used_sty.push(s);
                            if used_sty.len() > 1 {
                                self.label("repeated-style");
                            }
                            out.push(if s == "static" {
                                Attr::Str {
                                    name: "style".into(),
                                    value: "width:1px".into(),
                                }
                            } else if self.cfg.logging {
                                Attr::Expr {
                                    name: "style".into(),
                                    e: self.logging_expr(),
                                }
                            } else {
                                Attr::Expr {
                                    name: "style".into(),
                                    e: Ex::src(s, Cat::IdentBound),
                                }
                            });
                        }
                        _ => {
                            let name = self.c.choose(&["onClick", "onFoo", "onUpdate:modelValue", "on:click"]);
                            if name == "onUpdate:modelValue" && self.cfg.vmodel {
                                continue;
                            }
                            if !self.may_repeat(name) {
                                continue;
                            }
                            let before = out.iter().any(
                                |a| matches!(a, Attr::Expr { name: n, .. } if n == name),
                            );
                            if before {
                                self.label("repeated-listener");
                            }
                            let e = self.handler(&mut used_handlers);
                            out.push(Attr::Expr {
                                name: name.into(),
                                e,
                            });
                        }
                    }
                    // remember the leaf counter right after this mergeable attribute
                    if let Some(Attr::Expr { name, .. } | Attr::Str { name, .. }) = out.last() {
                        let name = name.clone();
                        self.mark_mergeable(&name);
                    }
                }
                2 => {
                    if n_spreads >= 3 {
                        continue;
                    }
                    n_spreads += 1;
                    let e = if self.cfg.logging {
                        if self.c.bool() {
                            self.logging_expr()
                        } else {
                            // object-literal spread whose member is a leaf
                            self.n_exprs += 1;
                            let k = self.next_log();
                            self.label("spread-object-literal");
                            Ex::src(format!("{{ lk{k}: t({k}) }}"), Cat::ObjLit)
                        }
                    } else {
                        match self.c.pick(5) {
                            0 | 1 => Ex::src(self.c.choose(&["p1", "p2"]), Cat::IdentBound),
                            2 => {
                                self.label("spread-object-literal");
                                Ex::src(
                                    self.c.choose(&[
                                        "{ id: s1, lang: \"en\" }",
                                        "{ \"data-b\": n1, ...p2 }",
                                        "{ title: x }",
                                    ]),
                                    Cat::ObjLit,
                                )
                            }
                            3 => {
                                self.label("spread-call");
                                Ex::src("((v) => v)(p1)", Cat::Call)
                            }
                            _ => Ex::src("(b1 ? p1 : p2)", Cat::Other),
                        }
                    };
                    self.label("spread");
                    out.push(Attr::Spread(e));
                }
                3 => {
                    let name = self.c.choose(&["on", "nativeOn"]).to_string();
                    if used_plain.contains(&name) {
                        continue;
                    }
                    used_plain.push(name.clone());
                    let e = if self.cfg.logging {
                        // `to(k)`: a tracer that returns an events object
                        self.n_exprs += 1;
                        let k = self.next_log();
                        Ex::src(format!("to({k})"), Cat::Call)
                    } else {
                        match self.c.pick(3) {
                            0 => Ex::src(if name == "on" { "ev1" } else { "ev2" }, Cat::IdentBound),
                            1 => Ex::src(
                                if name == "on" {
                                    "{ focus: h1, keyUp: () => 1 }"
                                } else {
                                    "{ click: (e) => e }"
                                },
                                Cat::ObjLit,
                            ),
                            _ => Ex::src(
                                if name == "on" { "((v) => v)(ev1)" } else { "((v) => v)(ev2)" },
                                Cat::Call,
                            ),
                        }
                    };
                    self.label("on-object");
                    out.push(Attr::On { name, e });
                }
                4 => {
                    self.in_directive = true;
                    let d = self.directive();
                    self.in_directive = false;
                    out.push(d);
                }
                5 => {
                    let name = if self.c.bool() { "html" } else { "text" };
                    if used_plain.contains(&name.to_string()) {
                        continue;
                    }
                    used_plain.push(name.to_string());
                    let v = match self.c.pick(3) {
                        0 => match self.expr(depth + 1) {
                            // `{[..]}` would be read as the array form
                            Ex::Src { cat: Cat::ArrLit, .. } => DirValue::Expr(Ex::src("y", Cat::IdentBound)),
                            Ex::Jsx(node) if self.c.bool() => {
                                self.label("braceless-jsx-directive-value");
                                DirValue::JsxBare(node)
                            }
                            e => DirValue::Expr(e),
                        },
                        1 => {
                            self.label("directive-string-value");
                            DirValue::Str(self.string_value())
                        }
                        _ => DirValue::Array {
                            value: self.expr(depth + 1),
                            arg: None,
                            mods: None,
                        },
                    };
                    self.label(format!("v-{name}"));
                    out.push(if name == "html" { Attr::Html(v) } else { Attr::Text(v) });
                }
                6 => {
                    if let Some(m) = self.vmodel(tag, &mut model_args, false) {
                        out.push(Attr::VModel(m));
                    }
                }
                7 => {
                    if has_vslots {
                        continue;
                    }
                    has_vslots = true;
                    let e = if self.c.chance(1, 4) {
                        // any expression may supply the slots: it is spread beside `default`
                        self.label("v-slots-value=call-or-conditional");
                        Ex::src(self.c.choose(&["((v) => v)(sl1)", "(b1 ? sl1 : sl1)", "o1.sl"]), Cat::Other)
                    } else if self.c.bool() {
                        Ex::src("sl1", Cat::IdentBound)
                    } else {
                        Ex::src(
                            self.c.choose(&["{ extra: () => s1, more: f1 }", "{ extra: () => s1, _: 1, more: f1 }"]),
                            Cat::ObjLit,
                        )
                    };
                    self.label("v-slots");
                    out.push(Attr::VSlots(e));
                }
                _ => {
                    if out.iter().any(|a| matches!(a, Attr::VModels(_))) {
                        continue;
                    }
                    let k = self.c.range(1, 3);
                    let mut ms = vec![];
                    for _ in 0..k {
                        if let Some(m) = self.vmodel(tag, &mut model_args, true) {
                            ms.push(m);
                        }
                    }
                    if !ms.is_empty() {
                        self.label("v-models");
                        out.push(Attr::VModels(ms));
                    }
                }
            }
        }
        self.merge_marks = saved_marks;
        out
    }

    fn plain_attr(&mut self, name: String, depth: usize) -> Attr {
        match self.c.weighted(&[3, 2, 6]) {
            0 => {
                let value = self.string_value();
                if is_ws_only_inline(&value) {
                    self.has_ws_only = true;
                    self.label("ws-only-inline-text");
                }
                if value != clean_text(&value) {
                    self.label("attr-string-whitespace");
                }
                Attr::Str { name, value }
            }
            1 => {
                self.label("valueless-attr");
                Attr::Bare { name }
            }
            _ => {
                if name.contains(':') {
                    self.label("namespaced-attr");
                }
                let e = self.expr(depth + 1);
                if let Ex::Jsx(node) = &e {
                    if self.c.bool() {
                        // `name=<jsx />` without braces
                        self.label("braceless-jsx-attr-value");
                        return Attr::JsxValue {
                            name,
                            node: node.clone(),
                        };
                    }
                }
                Attr::Expr { name, e }
            }
        }
    }

    fn directive(&mut self) -> Attr {
        let written = self
            .c
            .choose(&[
                "v-show", "v-foo", "v-foo-bar", "vFoo", "vFooBar", "v-x", "vX", "vShow", "v-two-words",
                "vTwoWords", "v-Foo", "v-visible", "vVisible", "v-vv", "v-v-on",
                // non-ASCII first letters (multi-byte in UTF-8)
                "v-étiquette", "v-Étiquette", "v-日本",
            ])
            .to_string();
        let mut ns_arg = None;
        let mut suffix_mods = vec![];
        if self.c.chance(1, 3) {
            ns_arg = Some(self.c.choose(&["arg", "a-b", "modelValue", "x", "Top", "Étage", "ARG"]).to_string());
            self.label("directive-ns-arg");
        }
        let k = self.c.weighted(&[6, 2, 1, 1]);
        for _ in 0..k {
            let m = self.c.choose(&["m1", "m2", "trim", "lazy", "a"]).to_string();
            if !suffix_mods.contains(&m) {
                suffix_mods.push(m);
            }
        }
        if !suffix_mods.is_empty() {
            self.label("directive-suffix-mods");
        }
        let ve = if self.cfg.logging {
            self.logging_expr()
        } else {
            self.expr(self.cfg.max_depth)
        };
        let value = match self.c.weighted(&[5, 2, 2, 2, 2, 1, if self.cfg.logging { 0 } else { 1 }, if self.cfg.logging { 0 } else { 1 }]) {
            7 => {
                // an element as the value, with or without braces
                let node = Node::El(Element {
                    tag: Tag::Html(self.c.choose(&["b", "i"]).to_string()),
                    attrs: vec![Attr::Str { name: "id".into(), value: "dv".into() }],
                    children: if self.c.bool() { vec![Child::Expr(Ex::src("x", Cat::IdentBound))] } else { vec![] },
                    self_closing: false,
                });
                if self.c.bool() {
                    self.label("braceless-jsx-directive-value");
                    DirValue::JsxBare(Box::new(node))
                } else {
                    self.label("jsx-directive-value");
                    DirValue::Expr(Ex::Jsx(Box::new(node)))
                }
            }
            6 => {
                // `v-foo="text"`: the string is the directive's value
                self.label("directive-string-value");
                DirValue::Str(self.string_value())
            }
            0 => match ve {
                // `{[..]}` would be read as the array form
                Ex::Src { cat: Cat::ArrLit, .. } => DirValue::Expr(Ex::src("x", Cat::IdentBound)),
                Ex::Jsx(node) if self.c.bool() => {
                    self.label("braceless-jsx-directive-value");
                    DirValue::JsxBare(node)
                }
                e => DirValue::Expr(e),
            },
            1 => DirValue::Array {
                value: ve,
                arg: None,
                mods: None,
            },
            2 => {
                // [v, arg] - only when no `:arg` was written (the statement does not rank the two)
                let arg = if ns_arg.is_none() {
                    Some(if self.cfg.logging {
                        self.logging_expr()
                    } else {
                        Ex::src(self.c.choose(&["\"arg2\"", "dyn1", "s1 + \"k\""]), Cat::Other)
                    })
                } else {
                    None
                };
                self.label("directive-array-arg");
                DirValue::Array {
                    value: ve,
                    arg,
                    mods: None,
                }
            }
            3 => {
                // [v, [mods]] - only without suffix modifiers
                if suffix_mods.is_empty() {
                    self.label("directive-array-mods");
                    DirValue::Array {
                        value: ve,
                        arg: None,
                        mods: Some(vec!["am1".into(), "am2".into()]),
                    }
                } else {
                    DirValue::Array {
                        value: ve,
                        arg: None,
                        mods: None,
                    }
                }
            }
            4 if ns_arg.is_some() && suffix_mods.is_empty() => {
                // `v-x:arg={[v, arg2, [mods]]}`: the statement does not rank the two argument
                // sources (the reference accepts either), but the modifier list is unambiguous
                self.label("directive-ns-arg-with-full-array");
                DirValue::Array {
                    value: ve,
                    arg: Some(Ex::src(self.c.choose(&["\"arg3\"", "dyn1"]), Cat::Other)),
                    mods: Some(vec![self.c.choose(&["zm", "a-b"]).to_string(), "zz".into()]),
                }
            }
            4 => {
                if suffix_mods.is_empty() && ns_arg.is_none() {
                    self.label("directive-array-arg-mods");
                    DirValue::Array {
                        value: ve,
                        arg: Some(Ex::src(self.c.choose(&["\"arg3\"", "dyn1"]), Cat::Other)),
                        mods: Some(vec![self.c.choose(&["zm", "a-b", "1x"]).to_string()]),
                    }
                } else {
                    DirValue::Expr(Ex::src("y", Cat::IdentBound))
                }
            }
            _ => {
                self.label("directive-valueless");
                DirValue::Absent
            }
        };
        if written.starts_with("v-") {
            self.label("directive-kebab");
        } else {
            self.label("directive-camel");
        }
        Attr::Dir(DirAttr {
            written,
            ns_arg,
            suffix_mods,
            value,
        })
    }

    fn vmodel(&mut self, tag: &Tag, used_args: &mut Vec<String>, array_only: bool) -> Option<VModel> {
        let comp = tag.is_component();
        // targets
        let target = if self.cfg.colliding && self.c.chance(1, 4) {
            self.label("vmodel-target-$event");
            "$event.p".to_string()
        } else {
            self.c
                .choose(&["m1", "m2", "mo.p", "mo[mk]", "marr[0]", "mo.deep.q", "(m1)", "(mo.p)", "((m2))"])
                .to_string()
        };
        let target = if self.cfg.tsx && !target.starts_with('$') && self.c.chance(1, 2) {
            // `x!`, `x as T`, `x satisfies T` are still assignable targets
            self.label("vmodel-target-ts-wrapped");
            match self.c.pick(3) {
                0 => format!("{target}!"),
                1 => format!("({target} as any)"),
                _ => format!("({target} satisfies any)"),
            }
        } else {
            target
        };
        if target.starts_with('(') {
            self.label("vmodel-target-parenthesised");
        }
        let base = target.trim_start_matches('(').split(['.', '[', ')', '!', ' ']).next().unwrap().to_string();
        if !self.vm_targets.contains(&base) {
            self.vm_targets.push(base);
        }
        let written = if array_only {
            "v-model".to_string()
        } else {
            self.c.choose(&["v-model", "v-model", "vModel"]).to_string()
        };
        let mut ns_arg = None;
        let mut suffix_mods: Vec<String> = vec![];
        let mut array = None;
        // argument (components only - the element clause of the statement has none)
        let mut arg_form = if comp { self.c.pick(4) } else { 0 };
        if arg_form == 3 && !self.cfg.vmodel_dynamic_arg {
            arg_form = 2;
        }
        // 0 none, 1 `:arg` (not in v-models), 2 static second element, 3 dynamic second element
        let mod_form = self.c.pick(3); // 0 none, 1 suffix, 2 array list
        let mods = vec![self.c.choose(&["trim", "lazy", "number"]).to_string()];
        let mut arr_arg = None;
        let arg_name: String;
        match arg_form {
            1 if !array_only => {
                let a = self.c.choose(&["title", "foo", "checked", "Title", "fooBar"]).to_string();
                arg_name = a.clone();
                ns_arg = Some(a);
                self.label("vmodel-ns-arg");
            }
            2 | 1 => {
                // (a string argument is the argument as it stands, `_` included)
                let a = self.c.choose(&["title", "foo", "checked", "Title", "fooBar", "my_prop", "a_b_c"]).to_string();
                arg_name = a.clone();
                arr_arg = Some(VmArg::Static(a));
                self.label("vmodel-static-arg");
            }
            3 => {
                arg_name = "dynArg".into();
                // in logging mode the computed argument is a leaf `ta(k)` (returns a string): C11
                // exempts it - it may be evaluated once per generated prop key (at most 3 times)
                arr_arg = Some(VmArg::Dynamic(if self.cfg.logging {
                    self.n_exprs += 1;
                    let k = self.next_log();
                    self.multi_leaves.push(format!("ta({k})"));
                    Ex::src(format!("ta({k})"), Cat::Call)
                } else {
                    Ex::src("dyn1", Cat::IdentBound)
                }));
                self.label("vmodel-dynamic-arg");
            }
            _ => arg_name = "modelValue".into(),
        }
        // never bind the same argument twice on one element (duplicate prop keys)
        if used_args.contains(&arg_name) {
            return None;
        }
        used_args.push(arg_name);
        let mut arr_mods = None;
        match mod_form {
            1 if !array_only => {
                suffix_mods = mods;
                self.label("vmodel-suffix-mods");
            }
            2 | 1 => {
                arr_mods = Some(mods);
                self.label("vmodel-array-mods");
            }
            _ => {}
        }
        if array_only || arr_arg.is_some() || arr_mods.is_some() || self.c.chance(1, 5) {
            array = Some(VModelArray {
                arg: arr_arg,
                mods: arr_mods,
            });
        }
        self.label(if comp { "vmodel-component" } else { "vmodel-element" });
        Some(VModel {
            written,
            target,
            ns_arg,
            suffix_mods,
            array,
        })
    }

    // ---------------------------------------------------------------------------------------
    // children

    fn text(&mut self) -> Vec<TextPiece> {
        let raw = |s: &str| TextPiece {
            decoded: s.to_string(),
            entity: None,
        };
        if !self.cfg.rich_text {
            let s = self
                .c
                .choose(&["text", " spaced out ", "\n  line\n  two\n", "a b", " ", "\n  ", "x ", " y"]);
            return vec![raw(s)];
        }
        let n = self.c.range(1, 12);
        let mut out = vec![];
        for _ in 0..n {
            let p = match self.c.weighted(&[6, 6, 3, 2, 1, 1, 1, 1, 1, 1, 2, 2, 1]) {
                0 => raw(self.c.choose(&["a", "b", "word", "Z", "9", ".", ",", "-"])),
                1 => raw(" "),
                2 => raw("\n"),
                3 => raw("\t"),
                4 => raw("\r"),
                5 => raw("\r\n"),
                6 => raw("\u{a0}"),
                7 => raw(self.c.choose(&["\u{2003}", "\u{3000}", "\u{2028}", "\u{feff}", "\u{2029}", "\u{85}", "\u{b}", "\u{c}"])),
                8 => TextPiece {
                    decoded: "\u{a0}".into(),
                    entity: Some("nbsp".into()),
                },
                9 => {
                    let (d, e) = self.c.choose(&[("&", "amp"), ("<", "lt"), (">", "gt"), ("{", "#123"), ("\"", "quot")]);
                    TextPiece {
                        decoded: d.into(),
                        entity: Some(e.into()),
                    }
                }
                10 => raw(self.c.choose(&["{", "}", "<", ">", "&"])),
                12 => {
                    // white space written as a character reference: the rule applies to the decoded
                    // text (Babel cleans `JSXText.value`), so these are line breaks / tabs / spaces
                    let (d, e) = self.c.choose(&[
                        ("\n", "#10"), ("\n", "#xA"), ("\r", "#13"), ("\r", "#xD"), ("\t", "#9"), (" ", "#32"), (" ", "#x20"),
                    ]);
                    self.label("whitespace-character-reference");
                    TextPiece {
                        decoded: d.into(),
                        entity: Some(e.into()),
                    }
                }
                _ => raw("  "),
            };
            out.push(p);
        }
        out
    }

    pub fn children(&mut self, depth: usize) -> Vec<Child> {
        if !self.cfg.children {
            return vec![];
        }
        let n = self.c.len(self.cfg.max_children);
        let mut out: Vec<Child> = vec![];
        for _ in 0..n {
            let nested_w = if depth < self.cfg.max_depth { 4 } else { 0 };
            let k = self.c.weighted(&[4, 6, nested_w, 1, 1, 1]);
            let ch = match k {
                0 => {
                    if matches!(out.last(), Some(Child::Text(_))) {
                        // adjacent text runs would merge: separate them
                        Child::Comment
                    } else {
                        let t = self.text();
                        if is_ws_only_inline(&decoded_text(&t)) {
                            self.has_ws_only = true;
                            self.label("ws-only-inline-text");
                        }
                        Child::Text(t)
                    }
                }
                1 => Child::Expr(self.expr(depth + 1)),
                2 => Child::Node(self.node(depth + 1)),
                3 => Child::Empty,
                4 => Child::Comment,
                _ => {
                    self.label("spread-child");
                    Child::Spread(if self.cfg.logging {
                        // spread argument must be iterable
                        let k = self.next_log();
                        self.n_exprs += 1;
                        if self.c.bool() {
                            // a call as the spread's operand (must not be taken for a call child)
                            Ex::src(format!("ta({k})"), Cat::Other)
                        } else {
                            Ex::src(format!("[t({k})]"), Cat::ArrLit)
                        }
                    } else {
                        Ex::src(
                            self.c.choose(&["xs1", "[x, y]", "[]", "fxs()", "(b1 ? xs1 : [])", "fxs()"]),
                            Cat::Other,
                        )
                    })
                }
            };
            out.push(ch);
        }
        out
    }

    /// Element-like hosts: a sole function / object-literal child is outside the domain (the
    /// statements define it for component hosts only; Vue has no rendering for such element
    /// children) - replace it by an identifier.
    pub fn avoid_sole_fn_or_obj(&mut self, children: &mut [Child]) {
        for drop in [false, true] {
            WS_ONLY_DROP.with(|w| w.set(drop));
            let sole = {
                let eff = effective_children(children);
                match eff.as_slice() {
                    [Child::Expr(e)] => matches!(e.cat(), Cat::Arrow | Cat::FnExpr | Cat::ObjLit),
                    _ => false,
                }
            };
            if sole {
                for c in children.iter_mut() {
                    if let Child::Expr(e) = c {
                        if matches!(e.cat(), Cat::Arrow | Cat::FnExpr | Cat::ObjLit) {
                            *e = Ex::src("x", Cat::IdentBound);
                        }
                    }
                }
            }
        }
        WS_ONLY_DROP.with(|w| w.set(false));
    }

    pub fn node(&mut self, depth: usize) -> Node {
        if self.cfg.special_hosts && self.c.chance(1, 10) {
            self.label("host=fragment-short");
            let mut ch = self.children(depth);
            self.avoid_sole_fn_or_obj(&mut ch);
            return Node::Frag(ch);
        }
        Node::El(self.element(depth))
    }

    pub fn element(&mut self, depth: usize) -> Element {
        self.n_elements += 1;
        let tag = self.tag();
        self.label(format!("host={}", tag.host_label()));
        let mut attrs = self.attrs(&tag, depth);
        let typed_host = tag == Tag::Html("input".into())
            // a `type` attribute on textarea / select does not choose the model directive
            || ((tag == Tag::Html("textarea".into()) || tag == Tag::Html("select".into())) && self.c.chance(1, 3));
        if self.cfg.vmodel && typed_host {
            let ty = match self.c.pick(8) {
                0 => None,
                1 => Some(Attr::Str { name: "type".into(), value: "checkbox".into() }),
                2 => Some(Attr::Str { name: "type".into(), value: "radio".into() }),
                3 => Some(Attr::Str { name: "type".into(), value: "text".into() }),
                4 => Some(Attr::Str { name: "type".into(), value: "number".into() }),
                5 => Some(Attr::Expr { name: "type".into(), e: Ex::src("\"checkbox\"", Cat::Lit) }),
                6 => Some(Attr::Expr { name: "type".into(), e: Ex::src("\"radio\"", Cat::Lit) }),
                _ => Some(Attr::Expr { name: "type".into(), e: Ex::src("s1", Cat::IdentBound) }),
            };
            if let Some(t) = ty {
                let i = self.c.pick(attrs.len() + 1);
                attrs.insert(i, t);
                self.label(if tag == Tag::Html("input".into()) { "input-type-attr" } else { "type-attr-on-textarea-or-select" });
            }
        }
        let mut children = self.children(depth);
        if !tag.is_component() {
            self.avoid_sole_fn_or_obj(&mut children);
        }
        let self_closing = self.c.bool();
        Element {
            tag,
            attrs,
            children,
            self_closing,
        }
    }

    // ---------------------------------------------------------------------------------------
    // module assembly

    /// (main source, reference sources) for a list of exported JSX statements.
    pub fn assemble(&self, stmts: &[(String, Node)]) -> (String, Vec<String>) {
        let items: Vec<Item> = stmts
            .iter()
            .map(|(name, node)| Item::Site {
                tpl: format!("export const {name} = @H@;"),
                node: node.clone(),
            })
            .collect();
        self.assemble_items(&items)
    }

    /// (main source, reference sources). Several reference variants are returned when the case
    /// contains text made only of spaces/tabs, or v-slots (both readings accepted).
    pub fn assemble_items(&self, items: &[Item]) -> (String, Vec<String>) {
        let mut head = String::new();
        head.push_str(&self.env.import_line());
        head.push('\n');
        let mut vue_imports = vec![];
        if self.uses_fragment_tag {
            vue_imports.push("Fragment");
        }
        if self.uses_keepalive_bound {
            vue_imports.push("KeepAlive");
        }
        if !vue_imports.is_empty() {
            head.push_str(&format!("import {{ {} }} from \"vue\";\n", vue_imports.join(", ")));
        }
        let mut prelude = String::new();
        let mut readers = vec![];
        for t in &self.vm_targets {
            match t.as_str() {
                "m1" => {
                    prelude.push_str("let m1 = \"m1-initial\";\n");
                    readers.push("m1");
                }
                "m2" => {
                    prelude.push_str("let m2 = 2;\n");
                    readers.push("m2");
                }
                "mo" => {
                    prelude.push_str(
                        "const mk = \"dynKey\";\nconst mo = { p: \"mo.p-initial\", dynKey: \"mo.k-initial\", deep: { q: 5 } };\n",
                    );
                    readers.push("mo");
                }
                "marr" => {
                    prelude.push_str("const marr = [\"marr0-initial\", 1];\n");
                    readers.push("marr");
                }
                "$event" => readers.push("$event"),
                _ => {}
            }
        }
        let mut main = head.clone();
        main.push_str(&prelude);
        for it in items {
            match it {
                Item::Raw(s) => {
                    main.push_str(s);
                    main.push('\n');
                }
                Item::Site { tpl, node } => {
                    main.push_str(&tpl.replace("@H@", &node.jsx()));
                    main.push('\n');
                }
            }
        }
        let reader = if readers.is_empty() {
            String::new()
        } else {
            format!(
                "export const __read = () => JSON.parse(JSON.stringify({{ {} }}));\n",
                readers.join(", ")
            )
        };
        main.push_str(&reader);
        let mut refs = vec![];
        let has_vslots = self.labels.iter().any(|l| l == "v-slots");
        for drop in [false, true] {
            if drop && !self.has_ws_only {
                break;
            }
            for wrap in [true, false] {
                if !wrap && !has_vslots {
                    break;
                }
                WS_ONLY_DROP.with(|w| w.set(drop));
                let mut reference = head.clone();
                reference.push_str("import { R } from \"ref\";\n");
                let cfg = RefCfg {
                    ws_only_drop: drop,
                    vslots_wrap: wrap,
                    merge_props: self.opts.merge_props,
                    transform_on: self.opts.transform_on,
                    object_slots: self.opts.enable_object_slots,
                    factory: self.opts.pragma.clone(),
                };
                reference.push_str(&cfg.js());
                reference.push('\n');
                reference.push_str(&prelude);
                for it in items {
                    match it {
                        Item::Raw(s) => {
                            reference.push_str(s);
                            reference.push('\n');
                        }
                        Item::Site { tpl, node } => {
                            reference.push_str(&tpl.replace("@H@", &node.reference()));
                            reference.push('\n');
                        }
                    }
                }
                reference.push_str(&reader);
                refs.push(reference);
            }
        }
        WS_ONLY_DROP.with(|w| w.set(false));
        (main, refs)
    }
}

/// One top-level item of an assembled module.
#[derive(Clone, Debug)]
pub enum Item {
    /// plain code, identical in both programs
    Raw(String),
    /// template with `@H@` holes filled by a JSX node / its reference lowering
    Site { tpl: String, node: Node },
}
