//! Semantic JSX model with two renderers: JSX source (input of the transform) and the
//! reference lowering (plain JS calling `R.*`, DESIGN.md section 2.4 / appendix A).

use serde_json::{json, Value};

// --------------------------------------------------------------------------------------------
// model

#[derive(Clone, Debug, PartialEq)]
pub enum Cat {
    IdentBound,
    IdentUnbound,
    Lit,
    Call,
    Member,
    Arrow,
    FnExpr,
    ObjLit,
    ArrLit,
    Other,
}

#[derive(Clone, Debug)]
pub enum Ex {
    /// plain JS text, rendered identically in both programs
    Src { code: String, cat: Cat },
    /// nested JSX expression
    Jsx(Box<Node>),
    /// text with holes: parts.len() == subs.len() + 1
    Tpl { parts: Vec<String>, subs: Vec<Ex>, cat: Cat },
}

impl Ex {
    pub fn src(code: impl Into<String>, cat: Cat) -> Ex {
        Ex::Src {
            code: code.into(),
            cat,
        }
    }
    pub fn cat(&self) -> Cat {
        match self {
            Ex::Src { cat, .. } => cat.clone(),
            Ex::Jsx(_) => Cat::Other,
            Ex::Tpl { cat, .. } => cat.clone(),
        }
    }
    pub fn is_trivial_leaf(&self) -> bool {
        matches!(self.cat(), Cat::IdentBound | Cat::IdentUnbound | Cat::Lit)
    }
    pub fn contains_jsx(&self) -> bool {
        match self {
            Ex::Src { .. } => false,
            Ex::Jsx(_) => true,
            Ex::Tpl { subs, .. } => subs.iter().any(|s| s.contains_jsx()),
        }
    }
}

#[derive(Clone, Debug)]
pub enum Node {
    El(Element),
    Frag(Vec<Child>),
}

#[derive(Clone, Debug, PartialEq)]
pub enum Tag {
    /// HTML / SVG tag: element host, type = the string
    Html(String),
    /// tag matched by a configured custom-element pattern: element host
    Custom(String),
    /// identifier bound in the file: component host, type = the value
    Bound(String),
    /// member expression such as `NS.C`: component host, type = the value
    Member(String),
    /// unbound component name: runtime resolution by name
    Unbound(String),
    /// `<Fragment>` with `Fragment` imported from "vue" by the user
    FragmentTag,
    /// `<KeepAlive>` imported from "vue" by the user (bound) - children stay an array
    KeepAliveBound,
    /// `<KeepAlive>` unbound: resolved at runtime by name, children stay an array
    KeepAliveUnbound,
}

impl Tag {
    pub fn written(&self) -> String {
        match self {
            Tag::Html(s) | Tag::Custom(s) | Tag::Bound(s) | Tag::Member(s) | Tag::Unbound(s) => {
                s.clone()
            }
            Tag::FragmentTag => "Fragment".into(),
            Tag::KeepAliveBound | Tag::KeepAliveUnbound => "KeepAlive".into(),
        }
    }
    /// component host in the sense of C03 (children delivered as slots)
    pub fn is_component(&self) -> bool {
        matches!(self, Tag::Bound(_) | Tag::Member(_) | Tag::Unbound(_))
    }
    pub fn host_label(&self) -> &'static str {
        match self {
            Tag::Html(_) => "html",
            Tag::Custom(_) => "custom-element",
            Tag::Bound(_) => "bound-component",
            Tag::Member(_) => "member-component",
            Tag::Unbound(_) => "unbound-component",
            Tag::FragmentTag => "Fragment-tag",
            Tag::KeepAliveBound => "KeepAlive-bound",
            Tag::KeepAliveUnbound => "KeepAlive-unbound",
        }
    }
}

#[derive(Clone, Debug)]
pub struct DirAttr {
    /// attribute identifier as written, without `:arg` / `_mod` parts (e.g. "v-foo-bar", "vFooBar")
    pub written: String,
    /// `:arg` part of a namespaced name
    pub ns_arg: Option<String>,
    /// `_mod` suffixes
    pub suffix_mods: Vec<String>,
    pub value: DirValue,
}

#[derive(Clone, Debug)]
pub enum DirValue {
    Absent,
    /// `={e}`
    Expr(Ex),
    /// `="str"`
    Str(String),
    /// `=<jsx />` written without braces
    JsxBare(Box<Node>),
    /// array form `={[v, arg?, [mods]?]}`
    Array {
        value: Ex,
        arg: Option<Ex>,
        mods: Option<Vec<String>>,
    },
}

#[derive(Clone, Debug)]
pub struct VModel {
    /// how it is written: "v-model" or "vModel"
    pub written: String,
    /// assignable target expression (source text) and the reader expression for `__read`
    pub target: String,
    pub ns_arg: Option<String>,
    pub suffix_mods: Vec<String>,
    /// None: `={target}`; Some: array form
    pub array: Option<VModelArray>,
}

#[derive(Clone, Debug)]
pub struct VModelArray {
    /// second element: static string, or dynamic expression (source text + run-time string)
    pub arg: Option<VmArg>,
    pub mods: Option<Vec<String>>,
}

#[derive(Clone, Debug)]
pub enum VmArg {
    Static(String),
    Dynamic(Ex),
}

#[derive(Clone, Debug)]
pub enum Attr {
    Str { name: String, value: String },
    Bare { name: String },
    Expr { name: String, e: Ex },
    /// `name=<jsx />` (element or fragment as attribute value, no braces)
    JsxValue { name: String, node: Box<Node> },
    Spread(Ex),
    /// `on={..}` / `nativeOn={..}`
    On { name: String, e: Ex },
    Dir(DirAttr),
    Html(DirValue),
    Text(DirValue),
    VModel(VModel),
    /// `v-models={[[..],[..]]}` - each entry is a VModel in array form
    VModels(Vec<VModel>),
    VSlots(Ex),
}

#[derive(Clone, Debug)]
pub struct TextPiece {
    /// decoded character(s)
    pub decoded: String,
    /// Some(entity name) renders `&name;`
    pub entity: Option<String>,
}

#[derive(Clone, Debug)]
pub enum Child {
    Text(Vec<TextPiece>),
    Expr(Ex),
    Empty,
    Comment,
    Spread(Ex),
    Node(Node),
}

#[derive(Clone, Debug)]
pub struct Element {
    pub tag: Tag,
    pub attrs: Vec<Attr>,
    pub children: Vec<Child>,
    /// render `<x />` when there are no children
    pub self_closing: bool,
}

// --------------------------------------------------------------------------------------------
// reference text rule in Rust (same algorithm as js/ref.mjs cleanText)

pub fn clean_text(value: &str) -> String {
    // split on \r\n | \n | \r
    let mut lines: Vec<String> = vec![];
    let mut cur = String::new();
    let chars: Vec<char> = value.chars().collect();
    let mut i = 0;
    while i < chars.len() {
        let c = chars[i];
        if c == '\r' {
            if i + 1 < chars.len() && chars[i + 1] == '\n' {
                i += 1;
            }
            lines.push(std::mem::take(&mut cur));
        } else if c == '\n' {
            lines.push(std::mem::take(&mut cur));
        } else {
            cur.push(c);
        }
        i += 1;
    }
    lines.push(cur);
    let mut last_non_empty = 0;
    for (i, l) in lines.iter().enumerate() {
        if l.chars().any(|c| c != ' ' && c != '\t') {
            last_non_empty = i;
        }
    }
    let n = lines.len();
    let mut out = String::new();
    for (i, l) in lines.iter().enumerate() {
        let mut s: String = l.replace('\t', " ");
        if i != 0 {
            s = s.trim_start_matches(' ').to_string();
        }
        if i != n - 1 {
            s = s.trim_end_matches(' ').to_string();
        }
        if !s.is_empty() {
            if i != last_non_empty {
                s.push(' ');
            }
            out.push_str(&s);
        }
    }
    out
}

pub fn decoded_text(pieces: &[TextPiece]) -> String {
    pieces.iter().map(|p| p.decoded.as_str()).collect()
}

// --------------------------------------------------------------------------------------------
// JSX renderer

fn js_str(s: &str) -> String {
    serde_json::to_string(s).unwrap()
}

fn render_attr_string(value: &str) -> String {
    // JSX attribute strings have no escapes but HTML entities are decoded: `&` is written as
    // `&amp;`; the quote not contained is used, `&quot;` when both occur
    let v = value.replace('&', "&amp;");
    if !v.contains('"') {
        format!("\"{v}\"")
    } else if !v.contains('\'') {
        format!("'{v}'")
    } else {
        format!("\"{}\"", v.replace('"', "&quot;"))
    }
}

pub fn render_text(pieces: &[TextPiece]) -> String {
    let mut s = String::new();
    for p in pieces {
        if let Some(e) = &p.entity {
            s.push('&');
            s.push_str(e);
            s.push(';');
        } else {
            for c in p.decoded.chars() {
                match c {
                    '{' => s.push_str("&#123;"),
                    '}' => s.push_str("&#125;"),
                    '<' => s.push_str("&lt;"),
                    '>' => s.push_str("&gt;"),
                    '&' => s.push_str("&amp;"),
                    c => s.push(c),
                }
            }
        }
    }
    s
}

impl Ex {
    pub fn jsx(&self) -> String {
        match self {
            Ex::Src { code, .. } => code.clone(),
            Ex::Jsx(n) => n.jsx(),
            Ex::Tpl { parts, subs, .. } => {
                let mut s = String::new();
                for (i, p) in parts.iter().enumerate() {
                    s.push_str(p);
                    if i < subs.len() {
                        s.push_str(&subs[i].jsx());
                    }
                }
                s
            }
        }
    }
    pub fn reference(&self) -> String {
        match self {
            Ex::Src { code, .. } => code.clone(),
            Ex::Jsx(n) => n.reference(),
            Ex::Tpl { parts, subs, .. } => {
                let mut s = String::new();
                for (i, p) in parts.iter().enumerate() {
                    s.push_str(p);
                    if i < subs.len() {
                        s.push_str(&subs[i].reference());
                    }
                }
                s
            }
        }
    }
}

fn dir_name_text(written: &str, ns_arg: &Option<String>, mods: &[String]) -> String {
    let mut s = written.to_string();
    if let Some(a) = ns_arg {
        s.push(':');
        s.push_str(a);
    }
    for m in mods {
        s.push('_');
        s.push_str(m);
    }
    s
}

fn mods_array(mods: &[String]) -> String {
    let v: Vec<String> = mods.iter().map(|m| js_str(m)).collect();
    format!("[{}]", v.join(", "))
}

impl DirValue {
    fn jsx(&self) -> String {
        match self {
            DirValue::Absent => String::new(),
            DirValue::Expr(e) => format!("={{{}}}", e.jsx()),
            DirValue::Str(s) => format!("={}", render_attr_string(s)),
            DirValue::JsxBare(n) => format!("={}", n.jsx()),
            DirValue::Array { value, arg, mods } => {
                let mut parts = vec![value.jsx()];
                if let Some(a) = arg {
                    parts.push(a.jsx());
                }
                if let Some(m) = mods {
                    parts.push(mods_array(m));
                }
                format!("={{[{}]}}", parts.join(", "))
            }
        }
    }
}

impl VModel {
    fn array_elems_jsx(&self) -> String {
        let arr = self.array.as_ref().unwrap();
        let mut parts = vec![self.target.clone()];
        match &arr.arg {
            Some(VmArg::Static(s)) => parts.push(js_str(s)),
            Some(VmArg::Dynamic(e)) => parts.push(e.jsx()),
            None => {}
        }
        if let Some(m) = &arr.mods {
            parts.push(mods_array(m));
        }
        format!("[{}]", parts.join(", "))
    }
    fn jsx(&self) -> String {
        let name = dir_name_text(&self.written, &self.ns_arg, &self.suffix_mods);
        match &self.array {
            None => format!("{name}={{{}}}", self.target),
            Some(_) => format!("{name}={{{}}}", self.array_elems_jsx()),
        }
    }
}

impl Attr {
    pub fn jsx(&self) -> String {
        match self {
            Attr::Str { name, value } => format!("{name}={}", render_attr_string(value)),
            Attr::Bare { name } => name.clone(),
            Attr::Expr { name, e } => format!("{name}={{{}}}", e.jsx()),
            Attr::JsxValue { name, node } => format!("{name}={}", node.jsx()),
            Attr::Spread(e) => format!("{{...{}}}", e.jsx()),
            Attr::On { name, e } => format!("{name}={{{}}}", e.jsx()),
            Attr::Dir(d) => format!(
                "{}{}",
                dir_name_text(&d.written, &d.ns_arg, &d.suffix_mods),
                d.value.jsx()
            ),
            Attr::Html(v) => format!("v-html{}", v.jsx()),
            Attr::Text(v) => format!("v-text{}", v.jsx()),
            Attr::VModel(m) => m.jsx(),
            Attr::VModels(ms) => {
                let v: Vec<String> = ms.iter().map(|m| m.array_elems_jsx()).collect();
                format!("v-models={{[{}]}}", v.join(", "))
            }
            Attr::VSlots(e) => format!("v-slots={{{}}}", e.jsx()),
        }
    }
}

impl Child {
    pub fn jsx(&self) -> String {
        match self {
            Child::Text(p) => render_text(p),
            Child::Expr(e) => format!("{{{}}}", e.jsx()),
            Child::Empty => "{}".into(),
            Child::Comment => "{/* c */}".into(),
            Child::Spread(e) => format!("{{...{}}}", e.jsx()),
            Child::Node(n) => n.jsx(),
        }
    }
}

impl Node {
    pub fn jsx(&self) -> String {
        match self {
            Node::Frag(ch) => {
                let c: String = ch.iter().map(|c| c.jsx()).collect();
                format!("<>{c}</>")
            }
            Node::El(e) => {
                let tag = e.tag.written();
                let mut s = format!("<{tag}");
                for a in &e.attrs {
                    s.push(' ');
                    s.push_str(&a.jsx());
                }
                if e.children.is_empty() && e.self_closing {
                    s.push_str(" />");
                } else {
                    s.push('>');
                    for c in &e.children {
                        s.push_str(&c.jsx());
                    }
                    s.push_str(&format!("</{tag}>"));
                }
                s
            }
        }
    }
}

// --------------------------------------------------------------------------------------------
// reference renderer

/// Shape of the effective child list of a component host (after dropping children that
/// contribute nothing), as named in C03's statement.
#[derive(Clone, Copy, Debug, PartialEq, Eq)]
pub enum Shape {
    None,
    Ident,
    Call,
    Fn,
    Obj,
    Many,
}

impl Shape {
    pub fn as_str(self) -> &'static str {
        match self {
            Shape::None => "none",
            Shape::Ident => "ident",
            Shape::Call => "call",
            Shape::Fn => "fn",
            Shape::Obj => "obj",
            Shape::Many => "many",
        }
    }
}

thread_local! {
    /// which reading of "text made only of spaces/tabs, no line break" the reference renderer
    /// uses (see C02): true = dropped, false = kept
    pub static WS_ONLY_DROP: std::cell::Cell<bool> = const { std::cell::Cell::new(false) };
}

pub fn is_ws_only_inline(s: &str) -> bool {
    !s.is_empty() && s.chars().all(|c| c == ' ' || c == '\t')
}

pub fn text_contributes(s: &str) -> bool {
    if is_ws_only_inline(s) {
        return !WS_ONLY_DROP.with(|w| w.get());
    }
    !clean_text(s).is_empty()
}

pub fn effective_children(children: &[Child]) -> Vec<&Child> {
    children
        .iter()
        .filter(|c| match c {
            Child::Empty | Child::Comment => false,
            Child::Text(p) => text_contributes(&decoded_text(p)),
            _ => true,
        })
        .collect()
}

pub fn children_shape(children: &[Child]) -> Shape {
    let eff = effective_children(children);
    match eff.as_slice() {
        [] => Shape::None,
        [Child::Expr(e)] => match e.cat() {
            Cat::IdentBound | Cat::IdentUnbound => Shape::Ident,
            Cat::Call => Shape::Call,
            Cat::Arrow | Cat::FnExpr => Shape::Fn,
            Cat::ObjLit => Shape::Obj,
            _ => Shape::Many,
        },
        _ => Shape::Many,
    }
}

fn children_items_ref(children: &[Child]) -> String {
    let mut items = vec![];
    for c in children {
        match c {
            Child::Text(p) => items.push(format!("[\"t\", {}]", js_str(&decoded_text(p)))),
            Child::Expr(e) => items.push(format!("[\"e\", {}]", e.reference())),
            Child::Empty | Child::Comment => {}
            Child::Spread(e) => items.push(format!("[\"sp\", {}]", e.reference())),
            Child::Node(n) => items.push(format!("[\"n\", {}]", n.reference())),
        }
    }
    format!("[{}]", items.join(", "))
}

fn tag_ref(tag: &Tag) -> String {
    match tag {
        Tag::Html(s) | Tag::Custom(s) => format!("R.tag.el({})", js_str(s)),
        Tag::Bound(s) => format!("R.tag.val({s})"),
        Tag::Member(s) => {
            // JSX member names may contain `-`: the reference uses bracket access for those
            let mut parts = s.split('.');
            let mut e = parts.next().unwrap_or("").to_string();
            for p in parts {
                if p.chars().all(|c| c.is_ascii_alphanumeric() || c == '_' || c == '$') {
                    e.push('.');
                    e.push_str(p);
                } else {
                    e.push_str(&format!("[{}]", js_str(p)));
                }
            }
            format!("R.tag.val({e})")
        }
        Tag::Unbound(s) => format!("R.tag.unbound({})", js_str(s)),
        Tag::FragmentTag => "R.tag.frag()".into(),
        Tag::KeepAliveBound => "R.tag.keepAlive(KeepAlive)".into(),
        Tag::KeepAliveUnbound => "R.tag.keepAlive(R.resolve(\"KeepAlive\"))".into(),
    }
}

fn dirvalue_ref_value(v: &DirValue) -> String {
    match v {
        DirValue::Absent => "undefined".into(),
        DirValue::Expr(e) => e.reference(),
        // a string attribute value is white-space-normalised like any other attribute string
        DirValue::Str(s) => js_str(&clean_text(s)),
        DirValue::JsxBare(n) => n.reference(),
        DirValue::Array { value, .. } => value.reference(),
    }
}

impl VModel {
    /// reference entry for one v-model (host info comes from the element)
    fn reference(&self, type_attr: &str) -> String {
        // argument: `:arg` or array second element
        let arg = match (&self.ns_arg, self.array.as_ref().and_then(|a| a.arg.as_ref())) {
            (Some(a), _) => js_str(a),
            (None, Some(VmArg::Static(s))) => js_str(s),
            (None, Some(VmArg::Dynamic(e))) => e.reference(),
            (None, None) => "undefined".into(),
        };
        let mods: Vec<String> = match self.array.as_ref().and_then(|a| a.mods.as_ref()) {
            Some(m) => m.clone(),
            None => self.suffix_mods.clone(),
        };
        format!(
            "[\"vm\", {{ get: () => {t}, set: ($v) => {{ {t} = $v; }}, arg: {arg}, mods: {mods}, typeAttr: {type_attr} }}]",
            t = ts_erased_target(&self.target),
            mods = mods_array(&mods),
        )
    }
}

impl Element {
    fn type_attr_ref(&self) -> String {
        for a in &self.attrs {
            match a {
                Attr::Str { name, value } if name == "type" => {
                    return format!("{{ k: \"static\", v: {} }}", js_str(&clean_text(value)))
                }
                Attr::Expr { name, e } if name == "type" => {
                    // `type={"checkbox"}`: a literal inside a container; reference knows the value
                    if let Ex::Src { code, cat: Cat::Lit } = e {
                        return format!("{{ k: \"container-literal\", v: {code} }}");
                    }
                    return "{ k: \"dynamic\" }".into();
                }
                Attr::Bare { name } if name == "type" => return "{ k: \"dynamic\" }".into(),
                _ => {}
            }
        }
        "{ k: \"none\" }".into()
    }

    pub fn reference(&self) -> String {
        let mut entries = vec![];
        let ta = self.type_attr_ref();
        for a in &self.attrs {
            match a {
                Attr::Str { name, value } => {
                    entries.push(format!("[\"s\", {}, {}]", js_str(name), js_str(value)))
                }
                Attr::Bare { name } => entries.push(format!("[\"b\", {}]", js_str(name))),
                Attr::Expr { name, e } => {
                    entries.push(format!("[\"a\", {}, {}]", js_str(name), e.reference()))
                }
                Attr::JsxValue { name, node } => {
                    entries.push(format!("[\"a\", {}, {}]", js_str(name), node.reference()))
                }
                Attr::Spread(e) => entries.push(format!("[\"sp\", {}]", e.reference())),
                Attr::On { name, e } => {
                    entries.push(format!("[\"on\", {}, {}]", js_str(name), e.reference()))
                }
                Attr::Dir(d) => {
                    let mut arg_alt = String::new();
                    let (arg, mods): (String, Vec<String>) = match &d.value {
                        DirValue::Array { arg, mods, .. } => (
                            match (&d.ns_arg, arg) {
                                (Some(a), Some(e)) => {
                                    // given twice: either source is accepted
                                    arg_alt = format!(", argAlt: [{}]", e.reference());
                                    js_str(a)
                                }
                                (Some(a), _) => js_str(a),
                                (None, Some(e)) => e.reference(),
                                (None, None) => "undefined".into(),
                            },
                            match mods {
                                Some(m) => m.clone(),
                                None => d.suffix_mods.clone(),
                            },
                        ),
                        _ => (
                            match &d.ns_arg {
                                Some(a) => js_str(a),
                                None => "undefined".into(),
                            },
                            d.suffix_mods.clone(),
                        ),
                    };
                    entries.push(format!(
                        "[\"dir\", {{ written: {}, value: {}, arg: {}, mods: {}{} }}]",
                        js_str(&d.written),
                        dirvalue_ref_value(&d.value),
                        arg,
                        mods_array(&mods),
                        arg_alt
                    ));
                }
                Attr::Html(v) => entries.push(format!("[\"html\", {}]", dirvalue_ref_value(v))),
                Attr::Text(v) => entries.push(format!("[\"text\", {}]", dirvalue_ref_value(v))),
                Attr::VModel(m) => entries.push(m.reference(&ta)),
                Attr::VModels(ms) => {
                    for m in ms {
                        entries.push(m.reference(&ta));
                    }
                }
                Attr::VSlots(e) => entries.push(format!("[\"vs\", {}]", e.reference())),
            }
        }
        let shape = if self.tag.is_component() {
            children_shape(&self.children)
        } else {
            Shape::Many
        };
        // for single ident/call/fn/obj children only the effective child is passed
        let kids_src = match shape {
            Shape::Ident | Shape::Call | Shape::Fn | Shape::Obj => {
                let eff = effective_children(&self.children);
                let one: Vec<Child> = eff.into_iter().cloned().collect();
                children_items_ref(&one)
            }
            _ => children_items_ref(&self.children),
        };
        format!(
            "R.el(CFG, {}, [{}], {{ shape: {}, thunk: () => {} }})",
            tag_ref(&self.tag),
            entries.join(", "),
            js_str(shape.as_str()),
            kids_src
        )
    }
}

impl Node {
    pub fn reference(&self) -> String {
        match self {
            Node::Frag(ch) => format!(
                "R.frag(CFG, {{ shape: \"many\", thunk: () => {} }})",
                children_items_ref(ch)
            ),
            Node::El(e) => e.reference(),
        }
    }

    pub fn count_nodes(&self) -> usize {
        fn kids(ch: &[Child]) -> usize {
            ch.iter()
                .map(|c| match c {
                    Child::Node(n) => n.count_nodes(),
                    _ => 0,
                })
                .sum()
        }
        match self {
            Node::Frag(ch) => 1 + kids(ch),
            Node::El(e) => 1 + kids(&e.children),
        }
    }
}

// --------------------------------------------------------------------------------------------
// module assembly

#[derive(Clone, Debug)]
pub struct RefCfg {
    pub ws_only_drop: bool,
    pub vslots_wrap: bool,
    pub merge_props: bool,
    pub transform_on: bool,
    pub object_slots: bool,
    pub factory: Option<String>,
}

impl RefCfg {
    pub fn js(&self) -> String {
        format!(
            "const CFG = {{ wsOnlyDrop: {}, vslotsWrap: {}, mergeProps: {}, transformOn: {}, objectSlots: {}, factory: {} }};",
            self.ws_only_drop,
            self.vslots_wrap,
            self.merge_props,
            self.transform_on,
            self.object_slots,
            match &self.factory {
                Some(f) => js_str(f),
                None => "null".into(),
            }
        )
    }
}

/// Environment specification shared by both programs.
#[derive(Clone, Debug, Default)]
pub struct Env {
    pub bound: Vec<(String, Value)>,
    pub globals: Vec<(String, Value)>,
    pub factories: Vec<String>,
}

impl Env {
    pub fn json(&self) -> Value {
        let mut b = serde_json::Map::new();
        for (k, v) in &self.bound {
            b.insert(k.clone(), v.clone());
        }
        let mut g = serde_json::Map::new();
        for (k, v) in &self.globals {
            g.insert(k.clone(), v.clone());
        }
        json!({"bound": b, "globals": g, "factories": self.factories})
    }
    pub fn import_line(&self) -> String {
        let names: Vec<&str> = self.bound.iter().map(|(k, _)| k.as_str()).collect();
        format!("import {{ {} }} from \"env\";", names.join(", "))
    }
}

// value spec helpers
pub fn v_str(s: &str) -> Value {
    json!({"k": "str", "v": s})
}
pub fn v_num(n: f64) -> Value {
    json!({"k": "num", "v": n})
}
pub fn v_bool(b: bool) -> Value {
    json!({"k": "bool", "v": b})
}
pub fn v_null() -> Value {
    json!({"k": "null"})
}
pub fn v_undef() -> Value {
    json!({"k": "undef"})
}
pub fn v_arr(v: Vec<Value>) -> Value {
    json!({"k": "arr", "v": v})
}
pub fn v_obj(v: Vec<(&str, Value)>) -> Value {
    let mut m = serde_json::Map::new();
    for (k, x) in v {
        m.insert(k.to_string(), x);
    }
    json!({"k": "obj", "v": m})
}
pub fn v_fn(id: &str, ret: Value) -> Value {
    json!({"k": "fn", "id": id, "ret": ret})
}
pub fn v_vnode(id: &str) -> Value {
    json!({"k": "vnode", "id": id})
}
pub fn v_comp(id: &str) -> Value {
    json!({"k": "comp", "id": id})
}


/// v-model targets written with TS-only wrappers (`m1!`, `(mo.p as any)`): what they are in JS
pub fn ts_erased_target(t: &str) -> String {
    t.replace(" as any", "").replace(" satisfies any", "").replace('!', "")
}
