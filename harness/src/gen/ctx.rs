//! Syntactic contexts: templates with a hole in which a JSX expression sits, rendered
//! identically (except for the hole) for the transform input and for the reference program.

use crate::choices::Choices;

pub struct Ctx {
    pub label: &'static str,
    /// template with `@N@` for the export ordinal and `@H@` for the hole
    pub tpl: &'static str,
}

pub const CONTEXTS: &[Ctx] = &[
    Ctx { label: "module", tpl: "export const e@N@ = @H@;" },
    Ctx { label: "function-decl", tpl: "export function thunk@N@() {\n  return @H@;\n}" },
    Ctx { label: "function-expr", tpl: "export const thunk@N@ = function () {\n  const v = @H@;\n  return v;\n};" },
    Ctx { label: "arrow-expr-body", tpl: "export const thunk@N@ = () => @H@;" },
    Ctx { label: "arrow-block-body", tpl: "export const thunk@N@ = () => {\n  return @H@;\n};" },
    Ctx { label: "nested-arrows", tpl: "export const thunk@N@ = () => (() => (() => @H@)())();" },
    Ctx { label: "class-field", tpl: "export class K@N@ {\n  fld = @H@;\n}" },
    Ctx { label: "class-method", tpl: "export class K@N@ {\n  mth() {\n    return @H@;\n  }\n}" },
    Ctx { label: "class-getter", tpl: "export class K@N@ {\n  get gt() {\n    return @H@;\n  }\n}" },
    Ctx { label: "class-setter", tpl: "export class K@N@ {\n  out = null;\n  set st(v) {\n    this.out = @H@;\n  }\n}" },
    Ctx { label: "class-static-field", tpl: "export class K@N@ {\n  static sf = @H@;\n}" },
    Ctx { label: "class-static-block", tpl: "export class K@N@ {\n  static sf;\n  static {\n    this.sf = @H@;\n  }\n}" },
    Ctx { label: "default-param-arrow", tpl: "export const thunk@N@ = (a = @H@) => a;" },
    Ctx { label: "default-param-function", tpl: "export function thunk@N@(a = @H@) {\n  return a;\n}" },
    Ctx { label: "default-param-arrow-block", tpl: "export const thunk@N@ = (a = @H@, b = 1) => {\n  return [a, b];\n};" },
    Ctx { label: "object-method", tpl: "export const thunk@N@ = () => ({\n  m() {\n    return @H@;\n  }\n}).m();" },
    Ctx { label: "iife", tpl: "export const e@N@ = (function () {\n  return @H@;\n})();" },
    Ctx { label: "for-of", tpl: "export const thunk@N@ = () => {\n  const out = [];\n  for (const it of [1, 2]) {\n    out.push(@H@);\n  }\n  return out;\n};" },
    Ctx { label: "for-loop-no-block", tpl: "export const thunk@N@ = () => {\n  const out = [];\n  for (let i = 0; i < 2; i++) out.push(@H@);\n  return out;\n};" },
    Ctx { label: "while", tpl: "export const thunk@N@ = () => {\n  const out = [];\n  let i = 0;\n  while (i++ < 1) {\n    out.push(@H@);\n  }\n  return out;\n};" },
    Ctx { label: "if-else", tpl: "export const thunk@N@ = () => {\n  if (b1) {\n    return @H@;\n  } else {\n    return [@H@];\n  }\n};" },
    Ctx { label: "if-no-block", tpl: "export const thunk@N@ = () => {\n  if (true) return @H@;\n  return null;\n};" },
    Ctx { label: "try-catch-finally", tpl: "export const thunk@N@ = () => {\n  const out = [];\n  try {\n    out.push(@H@);\n    throw new Error(\"e\");\n  } catch (err) {\n    out.push(@H@);\n  } finally {\n    out.push(@H@);\n  }\n  return out;\n};" },
    Ctx { label: "switch", tpl: "export const thunk@N@ = () => {\n  switch (n1) {\n    case 42:\n      return @H@;\n    default:\n      return null;\n  }\n};" },
    Ctx { label: "labelled-block", tpl: "export const thunk@N@ = () => {\n  let r;\n  lbl: {\n    r = @H@;\n    break lbl;\n  }\n  return r;\n};" },
    Ctx { label: "nested-block", tpl: "export const thunk@N@ = () => {\n  let r;\n  {\n    {\n      r = @H@;\n    }\n  }\n  return r;\n};" },
    Ctx { label: "arrow-in-function", tpl: "export function thunk@N@() {\n  const inner = () => @H@;\n  return inner();\n}" },
    Ctx { label: "function-in-arrow", tpl: "export const thunk@N@ = () => {\n  function inner() {\n    return @H@;\n  }\n  return inner();\n};" },
    Ctx { label: "user-inner-_slot", tpl: "export const thunk@N@ = () => {\n  const _slot = \"user-inner-slot\";\n  return [@H@, _slot];\n};" },
    Ctx { label: "user-param-_slot", tpl: "export const thunk@N@ = (_slot = \"user-param-slot\", _isSlot = 7) => [@H@, _slot, _isSlot];" },
    Ctx { label: "sequence-and-conditional", tpl: "export const thunk@N@ = () => (b1 ? (0, @H@) : null);" },
    Ctx { label: "async-arrow", tpl: "export const e@N@ = (() => {\n  const f = async () => @H@;\n  return typeof f;\n})();\nexport const thunk@N@b = () => @H@;" },
    Ctx { label: "generator", tpl: "export const thunk@N@ = () => {\n  function* gen() {\n    yield @H@;\n  }\n  return [...gen()];\n};" },
    Ctx { label: "template-and-call-arg", tpl: "export const thunk@N@ = () => ((v) => v)(@H@);" },
];

/// sibling code that is independent of everything else (declares only fresh names)
pub fn sibling(c: &mut Choices, n: usize) -> String {
    match c.pick(8) {
        0 => format!("const sib{n} = f1();"),
        1 => format!("function sib{n}() {{\n  return 1;\n}}"),
        2 => format!("let sib{n} = 1;\nsib{n} = 2;"),
        3 => format!("const sib{n} = () => [1, 2].map((v) => v + 1);"),
        4 => format!("const sib{n} = () => {{\n  let q{n};\n  q{n} = 3;\n  return q{n};\n}};"),
        5 => format!("class Sib{n} {{\n  a = 1;\n  m() {{\n    return this.a;\n  }}\n}}"),
        6 => format!("for (const it{n} of [1]) {{\n  f2(it{n});\n}}"),
        _ => format!("if (b1) {{\n  f2(1);\n}}"),
    }
}

pub fn fill(tpl: &str, n: usize, hole: &str) -> String {
    tpl.replace("@N@", &n.to_string()).replace("@H@", hole)
}
