//! Option-set generator. Options are always rendered as JSON text (the plugin's input form).

use crate::choices::Choices;

#[derive(Clone, Debug, PartialEq)]
pub struct Opts {
    pub transform_on: bool,
    pub optimize: bool,
    pub merge_props: bool,
    pub enable_object_slots: bool,
    pub resolve_type: bool,
    pub pragma: Option<String>,
    pub patterns: Vec<String>,
}

impl Default for Opts {
    fn default() -> Self {
        Opts {
            transform_on: false,
            optimize: false,
            merge_props: true,
            enable_object_slots: true,
            resolve_type: false,
            pragma: None,
            patterns: vec![],
        }
    }
}

impl Opts {
    pub fn json(&self) -> String {
        let pats: Vec<String> = self
            .patterns
            .iter()
            .map(|p| serde_json::to_string(p).unwrap())
            .collect();
        let pragma = match &self.pragma {
            Some(p) => format!(",\"pragma\":{}", serde_json::to_string(p).unwrap()),
            None => String::new(),
        };
        format!(
            "{{\"transformOn\":{},\"optimize\":{},\"mergeProps\":{},\"enableObjectSlots\":{},\"resolveType\":{},\"customElementPatterns\":[{}]{}}}",
            self.transform_on,
            self.optimize,
            self.merge_props,
            self.enable_object_slots,
            self.resolve_type,
            pats.join(","),
            pragma
        )
    }

    pub fn label(&self) -> String {
        format!(
            "on={} opt={} merge={} objslots={} rt={} pragma={} pats={}",
            self.transform_on as u8,
            self.optimize as u8,
            self.merge_props as u8,
            self.enable_object_slots as u8,
            self.resolve_type as u8,
            self.pragma.is_some() as u8,
            self.patterns.len()
        )
    }
}

pub const PATTERN_POOLS: &[&[&str]] = &[&[], &["^i-"], &["el"], &["^i-", "^my-"], &["^Ion", "^i-"]];

/// all booleans random; pragma and patterns optional
pub fn any_opts(c: &mut Choices, allow_pragma: bool, allow_resolve_type: bool) -> Opts {
    let bits = c.byte();
    let pats = PATTERN_POOLS[c.weighted(&[4, 2, 1, 1, 2])];
    let pragma = if allow_pragma && c.chance(1, 6) {
        Some("h".to_string())
    } else {
        None
    };
    // byte 0 -> documented defaults
    Opts {
        transform_on: bits & 1 != 0,
        optimize: bits & 2 != 0,
        merge_props: bits & 4 == 0,
        enable_object_slots: bits & 8 == 0,
        resolve_type: allow_resolve_type && bits & 16 != 0,
        pragma,
        patterns: pats.iter().map(|s| s.to_string()).collect(),
    }
}

/// Replace the pragma by a name that is no identifier / member path (the transform must report
/// it and fall back to the default factory).
pub fn maybe_invalid_pragma(c: &mut Choices, opts: &mut Opts) -> bool {
    if c.chance(1, 25) {
        opts.pragma = Some(c.choose(&["custo?", "h (x)", "1a", "a..b", "", "a.", "h-1"]).to_string());
        return true;
    }
    false
}
