pub mod ctx;
pub mod grammar;
pub mod jsx;
pub mod sem;
pub mod types;
pub mod opts;
