pub mod grammar;
pub mod opts;
