//! C13 - patch flags and dynamic-prop lists are sound update hints.
//! Validity predicate (DESIGN.md appendix B) over the recorded vnode arguments, written from
//! Vue's patch-flag contract. Exhaustive over short attribute sequences, random beyond.

use serde_json::{json, Value};

use crate::choices::Choices;
use crate::gen::opts::Opts;
use crate::props::semantic::{node_eval, transform_for_eval};
use crate::runner::{Case, Ctx, Property, Tier, Verdict};

pub struct C13;

const TEXT: u64 = 1;
const CLASS: u64 = 2;
const STYLE: u64 = 4;
const PROPS: u64 = 8;
const FULL_PROPS: u64 = 16;
const HYDRATE_EVENTS: u64 = 32;

#[derive(Clone, Debug)]
struct AAttr {
    /// JSX text of the attribute
    jsx: String,
    /// prop name for plain attributes
    name: Option<&'static str>,
    /// value can differ between renders for sure
    dynamic: bool,
    /// spread / computed key / merged on-object
    needs_full: bool,
    is_ref: bool,
    runtime_directive: bool,
    /// needs a component host (v-model argument forms)
    comp_only: bool,
    /// `on` / `nativeOn` attribute
    is_on: bool,
    uses_m1: bool,
}

const NAMES: &[&str] = &[
    "class", "style", "key", "ref", "onClick", "onFoo", "onUpdate:modelValue", "title", "xlink:href",
    // namespaced names that merely start like the listener objects: ordinary props
    "on:click", "nativeOn:focus",
];
/// (jsx value text, definitely dynamic)
const VALUES: &[(&str, bool)] = &[
    ("=\"str\"", false),
    ("", false),
    ("={1}", false),
    ("={[1, \"a\"]}", false),
    ("={{ a: 1 }}", false),
    ("={undefined}", false),
    ("={x}", true),
    ("={f1()}", true),
    ("={o1.a}", true),
    ("={[x]}", true),
    ("={{ a: x }}", true),
    // a computed key is part of the value
    ("={{ [x]: 1 }}", true),
    // a JSX element / fragment is a fresh vnode on every render, braced or not
    ("=<i />", true),
    ("=<>{x}</>", true),
    ("={<i />}", true),
];

fn alphabet() -> Vec<AAttr> {
    let mut v = vec![];
    for n in NAMES {
        for (val, dynamic) in VALUES {
            v.push(AAttr {
                jsx: format!("{n}{val}"),
                name: Some(n),
                dynamic: *dynamic,
                needs_full: false,
                is_ref: *n == "ref",
                runtime_directive: false,
                comp_only: false,
                is_on: false,
                uses_m1: false,
            });
        }
    }
    let sp = |jsx: &str, full: bool, dir: bool, comp_only: bool, is_on: bool, m1: bool| AAttr {
        jsx: jsx.to_string(),
        name: None,
        dynamic: false,
        needs_full: full,
        is_ref: false,
        runtime_directive: dir,
        comp_only,
        is_on,
        uses_m1: m1,
    };
    v.push(sp("{...p1}", true, false, false, false, false));
    v.push(sp("{...{ a: x }}", true, false, false, false, false));
    v.push(sp("v-model={m1}", false, false, false, false, true)); // directive on elements only
    v.push(sp("v-model={[m1, \"arg\"]}", false, false, true, false, true));
    // a computed argument also yields a computed listener key on a plain element
    v.push(sp("v-model={[m1, dyn1]}", true, false, false, false, true));
    v.push(sp("v-foo={x}", false, true, false, false, false));
    v.push(sp("v-show={x}", false, true, false, false, false));
    v.push(sp("v-html={x}", false, false, false, false, false));
    v.push(sp("v-text={x}", false, false, false, false, false));
    v.push(sp("on={{ click: h1 }}", false, false, false, true, false));
    v.push(sp("on={ev1}", false, false, false, true, false));
    v.push(sp("nativeOn={ev1}", false, false, false, true, false));
    v
}

const ENV_IMPORT: &str = "import { x, f1, o1, p1, h1, ev1, dyn1, C1, C2, y, xs1, NS, FragmentList } from \"env\";\nlet m1 = 1;\n";
/// component hosts: bound, member (also with an HTML tag name / fragment-like name as the last
/// property), unbound, names that start like `Fragment`
const COMP_TAGS: &[&str] = &["C1", "C2", "NS.C", "NS.button", "NS.a.div", "Foo", "FragmentList", "NS.FragmentGroup", "KeepAlive", "NS.KeepAlive"];
const ELEM_TAGS: &[&str] = &["div", "span", "rect", "section"];

fn env_json() -> Value {
    use crate::gen::jsx::*;
    let env = Env {
        bound: vec![
            ("x".into(), v_str("xv")),
            ("y".into(), v_vnode("yv")),
            ("f1".into(), v_fn("f1", v_str("f1r"))),
            ("o1".into(), v_obj(vec![("a", v_num(1.0))])),
            ("p1".into(), v_obj(vec![("id", v_str("pid")), ("class", v_str("pc"))])),
            ("h1".into(), v_fn("h1", v_undef())),
            ("ev1".into(), v_obj(vec![("click", v_fn("ev1.click", v_undef()))])),
            ("dyn1".into(), v_str("dynArg")),
            ("C1".into(), v_comp("C1")),
            ("C2".into(), v_comp("C2")),
            ("FragmentList".into(), v_comp("FragmentList")),
            (
                "NS".into(),
                v_obj(vec![
                    ("C", v_comp("NS.C")),
                    ("button", v_comp("NS.button")),
                    ("FragmentGroup", v_comp("NS.FragmentGroup")),
                    ("KeepAlive", v_comp("NS.KeepAlive")),
                    ("a", v_obj(vec![("div", v_comp("NS.a.div"))])),
                ]),
            ),
            ("xs1".into(), v_arr(vec![v_str("a")])),
        ],
        globals: vec![("u1".into(), v_str("u1v"))],
        factories: vec![],
    };
    env.json()
}

fn attr_case(attrs: &[&AAttr], comp: bool, transform_on: bool, merge_props: bool, tag_ix: usize) -> Case {
    let tag = if comp { COMP_TAGS[tag_ix % COMP_TAGS.len()] } else { ELEM_TAGS[tag_ix % ELEM_TAGS.len()] };
    let a: Vec<&str> = attrs.iter().map(|a| a.jsx.as_str()).collect();
    let src = format!("{ENV_IMPORT}export const e0 = <{tag} {} />;\n", a.join(" "));
    let opts = Opts {
        optimize: true,
        transform_on,
        merge_props,
        ..Opts::default()
    };
    let mut case = Case::new(src, "jsx", Some(opts.json()));
    let meta: Vec<Value> = attrs
        .iter()
        .map(|a| {
            // `on` / `nativeOn`: listeners with run-time keys under transformOn (full props),
            // ordinary dynamic props named "on" / "nativeOn" otherwise
            let on_name = if a.jsx.starts_with("nativeOn") { "nativeOn" } else { "on" };
            let (name, dynamic) = if a.is_on && !transform_on {
                (Some(on_name), true)
            } else {
                (a.name, a.dynamic)
            };
            json!({"name": name, "dynamic": dynamic, "needs_full": a.needs_full || (a.is_on && transform_on),
                "is_ref": a.is_ref, "dir": a.runtime_directive || (a.jsx.starts_with("v-model={m1}") && !comp)})
        })
        .collect();
    case.extra = json!({"env": env_json(), "kind": "attrs", "comp": comp, "attrs": meta});
    case.nontrivial = attrs.iter().any(|a| a.dynamic || a.needs_full);
    case.label(if comp { "host=component" } else { "host=element" });
    case.label(format!("tag={tag}"));
    case.label(format!("attrs={}", attrs.len()));
    case.label(format!("transformOn={transform_on} mergeProps={merge_props}"));
    for a in attrs {
        match a.name {
            Some(n) => case.label(format!("attr={n}:{}", if a.dynamic { "dynamic" } else { "constant" })),
            None => case.label(format!("attr={}", a.jsx)),
        }
    }
    case
}

fn legal(attrs: &[&AAttr], comp: bool) -> bool {
    // argument forms of v-model need a component host; one v-model per element
    if attrs.iter().any(|a| a.comp_only) && !comp {
        return false;
    }
    if attrs.iter().filter(|a| a.uses_m1).count() > 1 {
        return false;
    }
    true
}

// ---------------------------------------------------------------------------------------------
// slot trees

#[derive(Clone, Debug)]
enum T {
    Comp(Vec<T>),
    El(Vec<T>),
    Frag(Vec<T>),
    BoundIdent,
    UnboundIdent,
    SpreadBound,
    Text,
    Call,
}

fn gen_tree(c: &mut Choices, depth: usize) -> T {
    let kids = |c: &mut Choices, depth: usize| -> Vec<T> {
        let n = c.range(if depth == 0 { 1 } else { 0 }, 3);
        let mut v: Vec<T> = vec![];
        for _ in 0..n {
            let ch = gen_child(c, depth + 1);
            // adjacent text runs would merge into one child
            if matches!(ch, T::Text) && matches!(v.last(), Some(T::Text)) {
                continue;
            }
            v.push(ch);
        }
        v
    };
    match c.weighted(&[6, 3, 1]) {
        0 => T::Comp(kids(c, depth)),
        1 => T::El(kids(c, depth)),
        _ => T::Frag(kids(c, depth)),
    }
}

fn gen_child(c: &mut Choices, depth: usize) -> T {
    let nested = if depth < 4 { 6 } else { 0 };
    match c.weighted(&[nested, 3, 2, 1, 2, 1]) {
        0 => gen_tree(c, depth),
        1 => T::BoundIdent,
        2 => T::UnboundIdent,
        3 => T::SpreadBound,
        4 => T::Text,
        _ => T::Call,
    }
}

fn render_tree(t: &T, comp_ix: &mut usize) -> String {
    let kids = |ch: &Vec<T>, ix: &mut usize| -> String { ch.iter().map(|c| render_tree(c, ix)).collect() };
    match t {
        T::Comp(ch) => {
            *comp_ix += 1;
            let tag = if *comp_ix % 2 == 0 { "C1" } else { "C2" };
            let k = kids(ch, comp_ix);
            format!("<{tag}>{k}</{tag}>")
        }
        T::El(ch) => format!("<div>{}</div>", kids(ch, comp_ix)),
        T::Frag(ch) => format!("<>{}</>", kids(ch, comp_ix)),
        T::BoundIdent => "{y}".into(),
        T::UnboundIdent => "{u1}".into(),
        T::SpreadBound => "{...xs1}".into(),
        T::Text => "txt".into(),
        T::Call => "{f1()}".into(),
    }
}

/// need(node): some component reached from here by direct JSX nesting has a direct bound
/// identifier child
fn need(t: &T) -> bool {
    match t {
        T::Comp(ch) => {
            ch.iter().any(|c| matches!(c, T::BoundIdent | T::SpreadBound)) || ch.iter().any(need)
        }
        T::El(ch) | T::Frag(ch) => ch.iter().any(need),
        _ => false,
    }
}

fn tree_meta(t: &T) -> Value {
    match t {
        T::Comp(ch) => json!({"k": "comp", "need2": need(t), "ch": ch.iter().map(tree_meta).collect::<Vec<_>>(),
            "sole_passthrough": ch.len() == 1 && matches!(ch[0], T::BoundIdent | T::UnboundIdent | T::Call)}),
        T::El(ch) => json!({"k": "el", "ch": ch.iter().map(tree_meta).collect::<Vec<_>>()}),
        T::Frag(ch) => json!({"k": "frag", "ch": ch.iter().map(tree_meta).collect::<Vec<_>>()}),
        T::Text => json!({"k": "text"}),
        T::SpreadBound => json!({"k": "spread"}),
        _ => json!({"k": "expr"}),
    }
}

// ---------------------------------------------------------------------------------------------
// predicate

fn check_attrs(case: &Case, vnode: &Value) -> Result<(), String> {
    let comp = case.extra["comp"].as_bool().unwrap_or(false);
    let attrs = case.extra["attrs"].as_array().cloned().unwrap_or_default();
    let pf_v = &vnode["pf"];
    let pf: Option<i64> = if pf_v.get("$").is_some() {
        None // undefined
    } else {
        match pf_v.as_f64() {
            Some(f) if f.fract() == 0.0 => Some(f as i64),
            _ => return Err(format!("P0: patch flag is not an integer: {pf_v}")),
        }
    };
    // P0
    if let Some(p) = pf {
        if p < 1 {
            return Err(format!("P0: patch flag {p} is not a positive integer"));
        }
    }
    let pfu = pf.unwrap_or(0) as u64;
    let dp: Option<Vec<String>> = if vnode["dp"].get("$").is_some() {
        None
    } else {
        match vnode["dp"].as_array() {
            Some(a) => Some(a.iter().map(|s| s.as_str().unwrap_or("<non-string>").to_string()).collect()),
            None => return Err(format!("P1: dynamic props is not an array: {}", vnode["dp"])),
        }
    };
    let keys: Vec<String> = vnode["pk"]
        .as_array()
        .map(|a| a.iter().filter_map(|k| k.as_str().map(|s| s.to_string())).collect())
        .unwrap_or_default();
    // P1: dp names only props actually present
    if let Some(dp) = &dp {
        for n in dp {
            if !keys.contains(n) {
                return Err(format!("P1: dynamic prop \"{n}\" is not a prop of the vnode ({keys:?})"));
            }
        }
    }
    let in_dp = |n: &str| dp.as_ref().map(|d| d.iter().any(|x| x == n)).unwrap_or(false);
    // P2
    if pfu > 0 && pfu & FULL_PROPS == 0 {
        for a in &attrs {
            if a["dynamic"].as_bool() != Some(true) {
                continue;
            }
            let n = a["name"].as_str().unwrap_or("");
            if n == "key" || n == "ref" {
                continue;
            }
            let covered = if !comp && n == "class" {
                pfu & CLASS != 0 || (pfu & PROPS != 0 && in_dp(n))
            } else if !comp && n == "style" {
                pfu & STYLE != 0 || (pfu & PROPS != 0 && in_dp(n))
            } else {
                pfu & PROPS != 0 && in_dp(n)
            };
            if !covered {
                return Err(format!("P2: dynamic prop \"{n}\" is not covered by flag {pfu} / dynamic props {dp:?}"));
            }
        }
    }
    // P3
    if attrs.iter().any(|a| a["needs_full"].as_bool() == Some(true)) && pfu > 0 && pfu & FULL_PROPS == 0 {
        return Err(format!("P3: spread / computed key / merged on-object present but flag {pfu} lacks FULL_PROPS"));
    }
    // P4
    let has_ref = attrs.iter().any(|a| a["is_ref"].as_bool() == Some(true));
    let has_dir = vnode["dirs"].as_array().map(|d| !d.is_empty()).unwrap_or(false)
        || attrs.iter().any(|a| a["dir"].as_bool() == Some(true));
    if (has_ref || has_dir) && pfu == HYDRATE_EVENTS {
        return Err("P4: vnode with ref / runtime directive left with HYDRATE_EVENTS alone".into());
    }
    let _ = TEXT;
    Ok(())
}

fn check_tree(meta: &Value, v: &Value, path: &str) -> Result<(), String> {
    let k = meta["k"].as_str().unwrap_or("");
    let metas = meta["ch"].as_array().cloned().unwrap_or_default();
    // children of this node as canonical list
    let list: Vec<Value> = match k {
        "comp" => {
            if metas.is_empty() {
                return Ok(());
            }
            let ch = &v["children"];
            if ch["$"].as_str() != Some("slots") {
                return Err(format!("{path}: component children are not a slots object: {ch}"));
            }
            // P5
            let flag = &ch["_"];
            let f = flag.as_i64();
            if f != Some(1) && f != Some(2) {
                return Err(format!("P5 {path}: slot flag `_` is {flag}, expected 1 or 2"));
            }
            if meta["need2"].as_bool() == Some(true) && f != Some(2) {
                return Err(format!("P5 {path}: slot flag `_` is 1 but a direct bound identifier child makes the slot dynamic (here or in a directly nested slot)"));
            }
            ch["e"]["default"]["r"].as_array().cloned().unwrap_or_default()
        }
        "el" | "frag" => v["children"].as_array().cloned().unwrap_or_default(),
        _ => return Ok(()),
    };
    // align model children with observed children (text contributes one, spread splices 1 here)
    if metas.iter().any(|m| m["k"] == "spread") {
        // spread splices a run-time list: stop descending (lengths no longer align)
        return Ok(());
    }
    if list.len() != metas.len() {
        return Err(format!("{path}: child count {} != expected {}", list.len(), metas.len()));
    }
    for (i, (m, c)) in metas.iter().zip(list.iter()).enumerate() {
        check_tree(m, c, &format!("{path}/{i}"))?;
    }
    Ok(())
}

impl Property for C13 {
    fn id(&self) -> &'static str {
        "C13"
    }
    fn rule(&self) -> String {
        "(a) exhaustive: every ordered sequence of <=2 (quick) / multiset of <=3 (thorough) attributes over the abstract alphabet {class, style, key, ref, onClick, onFoo, onUpdate:modelValue, title, xlink:href} x {static string, value-less, 1, [1,\"a\"], {a:1}, undefined | x, f1(), o1.a, [x], {a:x}, {[x]:1}} plus {spread ident, spread literal, v-model, v-model static arg, v-model computed arg, custom directive, v-show, v-html, v-text, on literal, on ident, nativeOn ident} on an element host and a component host, optimize on, transformOn on/off, mergeProps on/off; (b) random nested component/element/fragment trees (depth<=4) with bound / unbound / spread identifier children. Oracle: predicate P0-P5 written from Vue's patch-flag contract over the recorded createVNode arguments 2/4/5 and the `_` key of slot objects: flag absent or integer>=1; dynamicProps names only present props; with a positive flag lacking FULL_PROPS every definitely-dynamic attribute is covered (class/style bits on elements, else PROPS + membership); spread / computed key / merged on-object => FULL_PROPS or no flag; ref or runtime directive => not HYDRATE_EVENTS alone; transform-built slot objects carry _ in {1,2}, 2 when a direct child is a bound identifier (propagated to enclosing slots through direct JSX nesting). non-trivial = >=1 definitely-dynamic attribute or full-props trigger, or a tree with >=1 bound identifier child; distinct by hash(source, options)".into()
    }
    fn assumptions(&self) -> Vec<String> {
        vec![
            "'definitely dynamic' is deliberately narrower than the plugin's own constant test, so the predicate can only under-demand".into(),
            "over-approximating a slot flag to 2 is accepted (the statement only demands 2 where listed)".into(),
        ]
    }
    fn max_bytes(&self) -> usize {
        200
    }
    fn cases(&self, tier: Tier) -> u32 {
        match tier {
            Tier::Quick => 10_000,
            Tier::Thorough => 120_000,
        }
    }
    fn uses_node(&self) -> bool {
        true
    }
    fn exhaustive(&self, tier: Tier) -> Vec<(String, Vec<Case>)> {
        let al = alphabet();
        let mut cases = vec![];
        let mut push = |attrs: &[&AAttr], cases: &mut Vec<Case>| {
            for comp in [false, true] {
                if !legal(attrs, comp) {
                    continue;
                }
                let has_on = attrs.iter().any(|a| a.is_on);
                let tons: &[bool] = if has_on { &[false, true] } else { &[false] };
                for &ton in tons {
                    let ix = cases.len() / 2;
                    cases.push(attr_case(attrs, comp, ton, true, ix));
                }
            }
        };
        push(&[], &mut cases);
        for a in &al {
            push(&[a], &mut cases);
        }
        for a in &al {
            for b in &al {
                push(&[a, b], &mut cases);
            }
        }
        let name;
        if tier == Tier::Thorough {
            // (size 3 over the core of the alphabet: the later additions - namespaced `on:` names,
            // JSX-valued attributes - take part in the pairs and in the random tier; the full
            // cube would be 1.9 million cases held in memory)
            let core: Vec<&AAttr> = al
                .iter()
                .filter(|a| {
                    !a.jsx.starts_with("on:")
                        && !a.jsx.starts_with("nativeOn:")
                        && !a.jsx.contains("=<")
                        && !a.jsx.contains("={<")
                })
                .collect();
            for i in 0..core.len() {
                for j in i..core.len() {
                    for k in j..core.len() {
                        push(&[core[i], core[j], core[k]], &mut cases);
                    }
                }
            }
            name = format!("attribute sequences: all ordered pairs over {} abstract attributes and all multisets of size 3 over {} of them x 2 hosts", al.len(), core.len());
        } else {
            name = format!("attribute sequences: all ordered sequences of length <=2 over {} abstract attributes x 2 hosts", al.len());
        }
        vec![(name, cases)]
    }
    fn generate(&self, c: &mut Choices) -> Case {
        if c.chance(1, 2) {
            // random longer attribute sequences, mergeProps on/off
            let al = alphabet();
            let n = c.range(3, 5);
            let comp = c.bool();
            let mut picked: Vec<&AAttr> = vec![];
            for _ in 0..n {
                let a = &al[c.pick(al.len())];
                let mut tmp = picked.clone();
                tmp.push(a);
                if legal(&tmp, comp) {
                    picked.push(a);
                }
            }
            let ton = c.bool();
            let mp = c.chance(3, 4);
            let tag_ix = c.pick(10);
            let mut case = attr_case(&picked, comp, ton, mp, tag_ix);
            case.label("random-attrs");
            return case;
        }
        let t = gen_tree(c, 0);
        let mut ix = 0;
        let src = format!("{ENV_IMPORT}export const e0 = {};\n", render_tree(&t, &mut ix));
        let opts = Opts {
            optimize: true,
            enable_object_slots: c.bool(),
            ..Opts::default()
        };
        let mut case = Case::new(src, "jsx", Some(opts.json()));
        case.extra = json!({"env": env_json(), "kind": "tree", "tree": tree_meta(&t)});
        case.nontrivial = need(&t);
        case.label("slot-tree");
        if need(&t) {
            case.label("slot-tree-needs-dynamic");
        }
        case
    }
    fn check(&self, case: &Case, ctx: &mut Ctx) -> Verdict {
        let t = match transform_for_eval(case) {
            Ok(t) => t,
            Err(v) => return v,
        };
        if !t.diags.is_empty() {
            return Verdict::Violation {
                kind: "unexpected-diagnostic".into(),
                detail: json!({"diags": t.diags}),
            };
        }
        let results = match node_eval(
            ctx,
            vec![("main", t.code.as_str())],
            &case.extra["env"],
            &json!({"hints": true}),
            None,
        ) {
            Ok(r) => r,
            Err(v) => return v,
        };
        let main = &results["main"];
        if !main["error"].is_null() {
            return Verdict::Violation {
                kind: "evaluation-error".into(),
                detail: json!({"error": main["error"], "output": t.code}),
            };
        }
        let root = &main["exports"]["e0"];
        let r = if case.extra["kind"] == "attrs" {
            check_attrs(case, root)
        } else {
            // sole ident/call children may be passed through at run time: values here are
            // strings / vnodes, which are always wrapped
            check_tree(&case.extra["tree"], root, "e0")
        };
        match r {
            Ok(()) => Verdict::Pass,
            Err(msg) => Verdict::Violation {
                kind: msg.split(':').next().unwrap_or("predicate").trim().to_string(),
                detail: json!({"message": msg, "vnode": root, "output": t.code}),
            },
        }
    }
    fn required_labels(&self) -> Vec<&'static str> {
        vec!["host=element", "host=component", "slot-tree", "slot-tree-needs-dynamic", "random-attrs"]
    }
}
