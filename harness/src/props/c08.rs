//! C08 - the transform is total and deterministic.

use serde_json::json;

use crate::choices::Choices;
use crate::driver::{summarize, Lang};
use crate::gen::grammar::{deep_nest, Knobs, G};
use crate::gen::opts::any_opts;
use crate::runner::{Case, Ctx, Property, Tier, Verdict};
use crate::worker::{WorkerChild, WorkerReply};

pub struct C08;

pub fn gen_case(c: &mut Choices) -> Case {
    if c.chance(1, 40) {
        let depth = c.range(20, 150);
        let comp = c.bool();
        let opts = any_opts(c, true, false);
        let mut case = Case::new(deep_nest(depth, comp), "jsx", Some(opts.json()));
        case.label("adversarial=deep-nesting");
        case.nontrivial = true;
        return case;
    }
    if c.chance(1, 3) {
        // the type-resolution and semantic generators of the other properties: their inputs
        // must be transformed deterministically too
        let mut case = match c.pick(8) {
            0 => crate::props::c16::gen_case(c),
            1 => crate::props::c17::gen_c17(c),
            2 | 3 => crate::props::c17::gen_c19(c),
            4 => crate::props::c18::gen_case(c),
            5 => crate::props::c20::gen_case(c),
            6 => {
                use crate::runner::Property;
                crate::props::c06::C06.generate(c)
            }
            _ => {
                use crate::runner::Property;
                crate::props::semprops::C12.generate(c)
            }
        };
        case.label("adversarial=other-generators");
        case.nontrivial = true;
        return case;
    }
    let tsx = c.chance(1, 2);
    let mut opts = any_opts(c, true, tsx);
    let bad_pragma = crate::gen::opts::maybe_invalid_pragma(c, &mut opts);
    if tsx && c.chance(3, 4) {
        opts.resolve_type = true;
    }
    let knobs = Knobs {
        tsx,
        unusual: true,
        adversarial: true,
        force_define_component: tsx && opts.resolve_type && c.chance(2, 3),
        ..Knobs::default()
    };
    let mut g = G::new(c, knobs);
    let src = g.module();
    let f = g.f.clone();
    let mut case = Case::new(src, if tsx { "tsx" } else { "jsx" }, Some(opts.json()));
    for u in &f.unusual {
        case.label(format!("unusual={u}"));
    }
    for u in &f.adversarial {
        case.label(format!("adversarial={u}"));
    }
    if f.define_component && opts.resolve_type {
        case.label("resolve-type-call");
    }
    case.label(format!("lang={}", case.lang));
    if bad_pragma {
        case.label("option=invalid-pragma-name");
    }
    case.nontrivial = !f.unusual.is_empty() || !f.adversarial.is_empty();
    case
}

fn worker(ctx: &mut Ctx, i: usize) -> Result<&mut WorkerChild, String> {
    while ctx.workers.len() <= i {
        ctx.workers.push(WorkerChild::spawn()?);
    }
    Ok(&mut ctx.workers[i])
}

pub fn judge(case: &Case, ctx: &mut Ctx) -> Verdict {
    let lang = Lang::from_str(&case.lang);
    let opts = case.options.as_deref();
    // workers first: a stack overflow must not take the runner down
    let mut outs = vec![];
    for i in 0..2 {
        let w = match worker(ctx, i) {
            Ok(w) => w,
            Err(e) => return Verdict::Infra(e),
        };
        match w.run(&case.source, lang, opts) {
            WorkerReply::Ok(s) => outs.push(s),
            WorkerReply::ParserHang => {
                // the parser has not accepted the module within the budget: outside the domain
                ctx.workers.remove(i);
                return Verdict::Discard("parser-exceeded-cpu-budget".into());
            }
            WorkerReply::Hang => {
                // confirm once in a fresh worker
                ctx.workers.remove(i);
                let mut w2 = match WorkerChild::spawn() {
                    Ok(w) => w,
                    Err(e) => return Verdict::Infra(e),
                };
                match w2.run(&case.source, lang, opts) {
                    WorkerReply::Hang => {
                        return Verdict::Violation {
                            kind: "hang".into(),
                            detail: json!({"cpu_seconds_limit": crate::worker::HANG_CPU_SECONDS}),
                        }
                    }
                    _ => return Verdict::Discard("unconfirmed-hang".into()),
                }
            }
            WorkerReply::Died(how) => {
                ctx.workers.remove(i);
                // confirm in a fresh worker (rules out a worker killed from outside)
                let mut w2 = match WorkerChild::spawn() {
                    Ok(w) => w,
                    Err(e) => return Verdict::Infra(e),
                };
                return match w2.run(&case.source, lang, opts) {
                    WorkerReply::Died(how2) => Verdict::Violation {
                        kind: "process-crash".into(),
                        detail: json!({"first": how, "second": how2}),
                    },
                    _ => Verdict::Infra(format!("worker died once, not reproducible: {how}")),
                };
            }
        }
    }
    if outs[0].rejected.is_some() {
        return Verdict::Discard("parser-rejected".into());
    }
    if let Some(p) = &outs[0].panicked {
        return Verdict::Violation {
            kind: "panic".into(),
            detail: json!({"message": p}),
        };
    }
    // a panic of hygiene/fixer/codegen on the visitor's output is C07's business ("output is a
    // program") - unless a diagnostic was reported, which exempts the case there: then the rest
    // of the pipeline crashing on what the visitor handed back turns the report into a crash
    if !outs[0].diags.is_empty() && outs[0].print_error.is_some() {
        let input_prints = crate::driver::with_transform(&case.source, lang, opts, |t| t.print_final(&t.input).is_ok())
            .unwrap_or(false);
        if input_prints {
            return Verdict::Violation {
                kind: "pipeline-crash-after-diagnostic".into(),
                detail: json!({"diagnostics": outs[0].diags, "print_error": outs[0].print_error}),
            };
        }
    }
    let a = summarize(&case.source, lang, opts);
    let b = summarize(&case.source, lang, opts);
    for (name, o) in [("worker2", &outs[1]), ("inproc1", &a), ("inproc2", &b)] {
        if *o != outs[0] {
            return Verdict::Violation {
                kind: "nondeterministic".into(),
                detail: json!({"run_a": "worker1", "run_b": name, "a": outs[0], "b": o}),
            };
        }
    }
    Verdict::Pass
}

impl Property for C08 {
    fn id(&self) -> &'static str {
        "C08"
    }
    fn rule(&self) -> String {
        "gen::grammar modules with adversarial knobs (directive values of every JSXAttrValue kind, cyclic interfaces/aliases, indexed access/Pick/Omit of them, holes/spreads/empty arrays in directive positions, nesting up to 150) x random options (resolveType mostly on for TSX); each case is transformed in two separate exec'ed worker processes (8 MiB stack) and twice in-process: no panic, no worker death, no hang (20 s CPU), no crash of hygiene / fixer / codegen on the visitor's output after a diagnostic (when the input itself prints), all four (raw print, final print, diagnostics) byte-identical. non-trivial = contains >=1 unusual or adversarial construct; distinct by hash(source, options)".into()
    }
    fn assumptions(&self) -> Vec<String> {
        vec![
            "hang = 20 s of worker CPU time, confirmed once in a fresh process".into(),
            "stack budget 8 MiB (main-thread default of native hosts and of the fixture tests)".into(),
            "inputs the swc parser rejects or panics on are outside the domain".into(),
        ]
    }
    fn max_bytes(&self) -> usize {
        600
    }
    fn cases(&self, tier: Tier) -> u32 {
        match tier {
            Tier::Quick => 25_000,
            Tier::Thorough => 300_000,
        }
    }
    fn generate(&self, c: &mut Choices) -> Case {
        gen_case(c)
    }
    fn check(&self, case: &Case, ctx: &mut Ctx) -> Verdict {
        judge(case, ctx)
    }
    fn builtin_cases(&self) -> Vec<Case> {
        let rt = Some("{\"resolveType\":true}".to_string());
        let mut v = vec![];
        for s in [
            "export const a = <div v-html=<b /> />;",
            "export const a = <div v-text=<></> />;",
            "export const a = <div v-html=\"s\" />;",
            "export const a = <C v-models />;",
            "export const a = <C v-models=\"x\" />;",
            "export const a = <C v-models={x} />;",
        ] {
            let mut c = Case::new(s.to_string(), "jsx", Some("{}".into()));
            c.nontrivial = true;
            c.label("builtin");
            v.push(c);
        }
        for s in [
            "import { defineComponent } from 'vue';\ninterface P extends P { a: string }\nexport const A = defineComponent((props: P) => () => null);",
            "import { defineComponent } from 'vue';\ntype X = Y; type Y = X;\nexport const A = defineComponent((props: X) => () => null);",
            "import { defineComponent } from 'vue';\ntype X = { a: X[\"a\"] };\nexport const A = defineComponent((props: X) => () => null);",
            "import { defineComponent } from 'vue';\ntype X = X[\"a\"];\nexport const A = defineComponent((props: { k: X }) => () => null);",
            "import { defineComponent } from 'vue';\ninterface A1 extends B1 { a: 1 } interface B1 extends A1 { b: 2 }\nexport const A = defineComponent((props: Pick<A1, 'a'>) => () => null);",
            "import { defineComponent } from 'vue';\ntype E = E | 'a';\nexport const A = defineComponent((props: {}, ctx: SetupContext<(e: E) => void>) => () => null);",
        ] {
            let mut c = Case::new(s.to_string(), "tsx", rt.clone());
            c.nontrivial = true;
            c.label("builtin");
            c.label("adversarial=cyclic");
            v.push(c);
        }
        v
    }
    fn extra_stage(
        &self,
        ctx: &mut Ctx,
        stats: &mut crate::runner::Stats,
    ) -> Result<Option<crate::runner::Violation>, String> {
        if ctx.tier != Tier::Thorough {
            return Ok(None);
        }
        crate::fuzzstage::fuzz_stage("C08", ctx, stats, 180, true)
    }
    fn required_labels(&self) -> Vec<&'static str> {
        vec!["adversarial=directive-jsx-value", "adversarial=deep-nesting", "adversarial=other-generators"]
    }
}
