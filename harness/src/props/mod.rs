pub mod c07;
pub mod c08;

use crate::runner::Property;

pub fn by_id(id: &str) -> Option<Box<dyn Property>> {
    match id {
        "C07" => Some(Box::new(c07::C07)),
        "C08" => Some(Box::new(c08::C08)),
        _ => None,
    }
}
