pub mod c01;
pub mod c07;
pub mod c08;
pub mod semantic;
pub mod semprops;

use crate::runner::Property;

pub fn by_id(id: &str) -> Option<Box<dyn Property>> {
    match id {
        "C01" => Some(Box::new(c01::C01)),
        "C02" => Some(Box::new(semprops::C02)),
        "C03" => Some(Box::new(semprops::C03)),
        "C04" => Some(Box::new(semprops::C04)),
        "C05" => Some(Box::new(semprops::C05)),
        "C07" => Some(Box::new(c07::C07)),
        "C08" => Some(Box::new(c08::C08)),
        _ => None,
    }
}
