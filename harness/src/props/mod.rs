pub mod c01;
pub mod c06;
pub mod c07;
pub mod c08;
pub mod c09;
pub mod c13;
pub mod c14;
pub mod c15;
pub mod c16;
pub mod c17;
pub mod c18;
pub mod c20;
pub mod semantic;
pub mod semprops;

use crate::runner::Property;

pub fn by_id(id: &str) -> Option<Box<dyn Property>> {
    match id {
        "C01" => Some(Box::new(c01::C01)),
        "C02" => Some(Box::new(semprops::C02)),
        "C03" => Some(Box::new(semprops::C03)),
        "C04" => Some(Box::new(semprops::C04)),
        "C05" => Some(Box::new(semprops::C05)),
        "C11" => Some(Box::new(semprops::C11)),
        "C12" => Some(Box::new(semprops::C12)),
        "C13" => Some(Box::new(c13::C13)),
        "C15" => Some(Box::new(c15::C15)),
        "C06" => Some(Box::new(c06::C06)),
        "C10" => Some(Box::new(c06::C10)),
        "C09" => Some(Box::new(c09::C09)),
        "C14" => Some(Box::new(c14::C14)),
        "C16" => Some(Box::new(c16::C16)),
        "C17" => Some(Box::new(c17::C17)),
        "C18" => Some(Box::new(c18::C18)),
        "C20" => Some(Box::new(c20::C20)),
        "C19" => Some(Box::new(c17::C19)),
        "C07" => Some(Box::new(c07::C07)),
        "C08" => Some(Box::new(c08::C08)),
        _ => None,
    }
}
