//! C01 - every JSX element renders the vnode type and props its source denotes.

use serde_json::json;

use crate::choices::Choices;
use crate::gen::sem::SemCfg;
use crate::props::semantic::{judge_semantic, node_eval, sem_case, transform_for_eval};
use crate::runner::{Case, Ctx, Property, Tier, Verdict};

pub struct C01;

impl Property for C01 {
    fn id(&self) -> &'static str {
        "C01"
    }
    fn rule(&self) -> String {
        "1-3 exported JSX elements decoded from proptest choice bytes: tag from every host class (HTML/SVG, pattern-matched custom element, bound identifier, member, unbound name, Fragment tag, <>, KeepAlive); 0-6 attributes from {static string with whitespace/line breaks, value-less, expression of every syntactic category, namespaced, spread of identifier/object literal/call/conditional, repeated class/style/listeners with distinct values, on/nativeOn object, key, ref}; env supplies spread sources with class/style/onClick/plain keys; all option combinations. Oracle: reference lowering (R.el fold with Vue mergeProps or Object.assign) evaluated in node against the same env; canonical type+props(+children) of every vnode compared, hints erased. non-trivial = >=2 attributes on some element incl. spread / repeated mergeable name / namespaced / on object / whitespace string / non-literal expression; distinct by hash(source, options, env)".into()
    }
    fn assumptions(&self) -> Vec<String> {
        vec![
            "mock vue runtime implements Vue 3's documented mergeProps / normalizeClass / normalizeStyle".into(),
            "repeated non-mergeable names, equal-valued repeats and on-object/listener name collisions are not generated (statement silent)".into(),
            "text/attribute strings made only of spaces/tabs: both 'kept' and 'dropped' accepted".into(),
        ]
    }
    fn max_bytes(&self) -> usize {
        400
    }
    fn cases(&self, tier: Tier) -> u32 {
        match tier {
            Tier::Quick => 20_000,
            Tier::Thorough => 300_000,
        }
    }
    fn uses_node(&self) -> bool {
        true
    }
    fn generate(&self, c: &mut Choices) -> Case {
        let cfg = SemCfg {
            max_children: 2,
            ..SemCfg::default()
        };
        let sc = sem_case(c, cfg, false, 3, json!({}));
        let mut case = sc.case;
        let l = &case.labels;
        let interesting = l.iter().any(|x| {
            matches!(
                x.as_str(),
                "spread" | "repeated-class" | "repeated-style" | "repeated-listener" | "namespaced-attr"
                    | "on-object" | "attr-string-whitespace"
            )
        }) || sc.n_exprs > 0;
        case.nontrivial = interesting && case.source.matches('=').count() >= 3;
        let env_key = crate::choices::hash64(&case.extra["env"].to_string());
        case.extra["distinct_key"] = json!(env_key);
        case
    }
    fn check(&self, case: &Case, ctx: &mut Ctx) -> Verdict {
        if case.extra["probe"].as_str() == Some("D69") {
            return probe_d69(case, ctx);
        }
        judge_semantic(case, ctx)
    }
    fn builtin_cases(&self) -> Vec<Case> {
        d69_probe_cases()
    }
    fn required_labels(&self) -> Vec<&'static str> {
        vec![
            "spread",
            "repeated-class",
            "repeated-style",
            "repeated-listener",
            "namespaced-attr",
            "on-object",
            "valueless-attr",
            "attr-string-whitespace",
            "host=html",
            "host=bound-component",
            "host=member-component",
            "host=unbound-component",
            "host=custom-element",
            "host=Fragment-tag",
            "spread-object-literal",
            "spread-call",
        ]
    }
}

// ---------------------------------------------------------------------------------------------
// D69 probe (known finding: a bound identifier whose name starts with a lower-case letter)

/// swc's resolver leaves lower-case JSX tag names unresolved, and the transform trusts that mark:
/// `import myButton from ...; <myButton />` is resolved at runtime by the name "myButton" instead
/// of denoting the bound value. Lower-case bound tag names are not generated while the finding is
/// listed; these examples are probed on every run.
pub fn d69_probe_cases() -> Vec<Case> {
    [
        ("import { myButton } from \"env\";\nexport const e0 = <myButton id=\"a\" />;\n", "myButton"),
        ("import { myButton } from \"env\";\nconst panel = myButton;\nexport const e0 = <panel />;\n", "panel"),
        ("import { myButton } from \"env\";\nexport const e0 = ((item) => <item />)(myButton);\n", "item"),
    ]
    .iter()
    .map(|(src, tag)| {
        let mut c = Case::new(src.to_string(), "jsx", Some("{}".into()));
        c.extra = json!({"probe": "D69", "tag": tag,
            "env": {"bound": {"myButton": {"k": "comp", "id": "myButton"}}, "globals": {}}});
        c.label("probe=D69");
        c.nontrivial = true;
        c
    })
    .collect()
}

pub fn probe_d69(case: &Case, ctx: &mut Ctx) -> Verdict {
    let t = match transform_for_eval(case) {
        Ok(t) => t,
        Err(v) => return v,
    };
    if !t.diags.is_empty() {
        return Verdict::Violation {
            kind: "unexpected-diagnostic".into(),
            detail: json!({"diags": t.diags}),
        };
    }
    let reference = case.source.replace("<myButton id=\"a\" />", "({ type: myButton, props: { id: \"a\" } })")
        .replace("<panel />", "({ type: panel, props: null })")
        .replace("<item />", "({ type: item, props: null })");
    let results = match node_eval(ctx, vec![("main", t.code.as_str()), ("ref", reference.as_str())], &case.extra["env"], &json!({"resolved": true}), None) {
        Ok(r) => r,
        Err(v) => return v,
    };
    if !results["ref"]["error"].is_null() {
        return Verdict::Infra(format!("reference program failed: {}", results["ref"]["error"]));
    }
    let observed = &results["main"]["exports"]["e0"]["type"];
    let expected = &results["ref"]["exports"]["e0"]["type"];
    if results["main"]["error"].is_null() && observed == expected {
        return Verdict::Pass; // the defect is gone
    }
    // exactly the listed signature: the tag was resolved at runtime under its own name
    let tag = case.extra["tag"].as_str().unwrap_or("");
    let by_name = results["main"]["resolved"]
        .as_array()
        .map(|a| a.iter().any(|r| r.as_str() == Some(&format!("component:{tag}"))))
        .unwrap_or(false);
    if by_name && results["main"]["error"].is_null() && ctx.findings.known("D69", "C01") {
        return Verdict::Known("D69".into());
    }
    Verdict::Violation {
        kind: "bound-lower-case-tag-does-not-denote-its-value".into(),
        detail: json!({"expected_type": expected, "observed_type": observed, "error": results["main"]["error"], "output": t.code}),
    }
}
