//! C01 - every JSX element renders the vnode type and props its source denotes.

use serde_json::json;

use crate::choices::Choices;
use crate::gen::sem::SemCfg;
use crate::props::semantic::{judge_semantic, sem_case};
use crate::runner::{Case, Ctx, Property, Tier, Verdict};

pub struct C01;

impl Property for C01 {
    fn id(&self) -> &'static str {
        "C01"
    }
    fn rule(&self) -> String {
        "1-3 exported JSX elements decoded from proptest choice bytes: tag from every host class (HTML/SVG, pattern-matched custom element, bound identifier, member, unbound name, Fragment tag, <>, KeepAlive); 0-6 attributes from {static string with whitespace/line breaks, value-less, expression of every syntactic category, namespaced, spread of identifier/object literal/call/conditional, repeated class/style/listeners with distinct values, on/nativeOn object, key, ref}; env supplies spread sources with class/style/onClick/plain keys; all option combinations. Oracle: reference lowering (R.el fold with Vue mergeProps or Object.assign) evaluated in node against the same env; canonical type+props(+children) of every vnode compared, hints erased. non-trivial = >=2 attributes on some element incl. spread / repeated mergeable name / namespaced / on object / whitespace string / non-literal expression; distinct by hash(source, options, env)".into()
    }
    fn assumptions(&self) -> Vec<String> {
        vec![
            "mock vue runtime implements Vue 3's documented mergeProps / normalizeClass / normalizeStyle".into(),
            "repeated non-mergeable names, equal-valued repeats and on-object/listener name collisions are not generated (statement silent)".into(),
            "text/attribute strings made only of spaces/tabs: both 'kept' and 'dropped' accepted".into(),
        ]
    }
    fn max_bytes(&self) -> usize {
        400
    }
    fn cases(&self, tier: Tier) -> u32 {
        match tier {
            Tier::Quick => 20_000,
            Tier::Thorough => 300_000,
        }
    }
    fn uses_node(&self) -> bool {
        true
    }
    fn generate(&self, c: &mut Choices) -> Case {
        let cfg = SemCfg {
            max_children: 2,
            ..SemCfg::default()
        };
        let sc = sem_case(c, cfg, false, 3, json!({}));
        let mut case = sc.case;
        let l = &case.labels;
        let interesting = l.iter().any(|x| {
            matches!(
                x.as_str(),
                "spread" | "repeated-class" | "repeated-style" | "repeated-listener" | "namespaced-attr"
                    | "on-object" | "attr-string-whitespace"
            )
        }) || sc.n_exprs > 0;
        case.nontrivial = interesting && case.source.matches('=').count() >= 3;
        let env_key = crate::choices::hash64(&case.extra["env"].to_string());
        case.extra["distinct_key"] = json!(env_key);
        case
    }
    fn check(&self, case: &Case, ctx: &mut Ctx) -> Verdict {
        judge_semantic(case, ctx)
    }
    fn required_labels(&self) -> Vec<&'static str> {
        vec![
            "spread",
            "repeated-class",
            "repeated-style",
            "repeated-listener",
            "namespaced-attr",
            "on-object",
            "valueless-attr",
            "attr-string-whitespace",
            "host=html",
            "host=bound-component",
            "host=member-component",
            "host=unbound-component",
            "host=custom-element",
            "host=Fragment-tag",
            "spread-object-literal",
            "spread-call",
        ]
    }
}
