//! C16 - resolveType derives exactly the declared props and their requiredness.
//! C19 - resolveType derives exactly the declared emitted events.

use serde_json::{json, Value};

use crate::choices::Choices;
use crate::gen::types::{Kind, Prop, TypeGen};
use crate::props::semantic::{node_eval, transform_for_eval};
use crate::runner::{Case, Ctx, Property, Tier, Verdict};

pub struct C16;

const RT: &str = "{\"resolveType\":true}";

pub fn assemble_dc(
    g: &mut TypeGen,
    enc: &str,
    second_param: &str,
    local: bool,
    extra_imports: &str,
) -> String {
    assemble_dc_opts(g, enc, second_param, local, extra_imports, "")
}

/// `options`: text appended after the setup argument, e.g. `, { props: ["a"] }`
pub fn assemble_dc_opts(
    g: &mut TypeGen,
    enc: &str,
    second_param: &str,
    local: bool,
    extra_imports: &str,
    options: &str,
) -> String {
    let setup_form = g.c.pick(8);
    let setup = match setup_form {
        // a TS `this` pseudo-parameter is not a parameter: `props` is still the first one
        4 => format!("function (this: void, props: {enc}{second_param}) {{ return () => null; }}"),
        5 => format!("function (this: {{ decoyThis: number }}, props: {enc}{second_param}) {{ return () => null; }}"),
        // redundant parentheses around the setup function
        6 => format!("((props: {enc}{second_param}) => () => null)"),
        7 => format!("((function (props: {enc}{second_param}) {{ return () => null; }}))"),
        0 => format!("(props: {enc}{second_param}) => () => null"),
        1 => format!("function (props: {enc}{second_param}) {{ return () => null; }}"),
        2 => format!("({{}}: {enc}{second_param}) => () => null"),
        _ => format!("(props: {enc} = {{}}{second_param}) => () => null"),
    };
    g.label(format!("setup-form={setup_form}"));
    let before: Vec<String> = g.decls.iter().filter(|d| !d.after).map(|d| d.text.clone()).collect();
    let after: Vec<String> = g.decls.iter().filter(|d| d.after).map(|d| d.text.clone()).collect();
    // other imports from 'vue' around the one that binds defineComponent must not matter
    let mut s = String::new();
    match g.c.pick(5) {
        0 => {
            g.label("second-vue-import-after");
            s.push_str("import { defineComponent } from \"vue\";\nimport { h as vueH2 } from \"vue\";\n");
        }
        1 => {
            g.label("second-vue-import-before");
            s.push_str("import { h as vueH2 } from \"vue\";\nimport { defineComponent } from \"vue\";\n");
        }
        2 => {
            g.label("type-only-vue-import-after");
            s.push_str("import { defineComponent } from \"vue\";\nimport type { PropType, SetupContext } from \"vue\";\n");
        }
        _ => s.push_str("import { defineComponent } from \"vue\";\n"),
    }
    s.push_str(extra_imports);
    if local {
        g.label("local-scope-with-decoys");
        // a prefix of the declarations (they only refer to earlier ones) stays at module level:
        // local declarations then reach outer ones through `extends` / references
        let mut n_outer = g.c.len(g.decls.len());
        // merged declarations of one name must stay in one scope (an inner one would shadow, not merge)
        let decl_name = |t: &str| t.trim_start_matches("export ").split_whitespace().nth(1).unwrap_or("").trim_end_matches('=').to_string();
        while n_outer < g.decls.len()
            && g.decls[n_outer..].iter().any(|d| g.decls[..n_outer].iter().any(|o| decl_name(&o.text) == decl_name(&d.text)))
        {
            n_outer += 1;
        }
        let outer: Vec<(String, bool)> = g.decls[..n_outer].iter().map(|d| (d.text.clone(), d.after)).collect();
        if n_outer > 0 && n_outer < g.decls.len() {
            g.label("local-declarations-refer-to-outer-scope");
        }
        let inner_decls: Vec<(String, bool)> = g.decls[n_outer..].iter().map(|d| (d.text.clone(), d.after)).collect();
        let before: Vec<String> = inner_decls.iter().filter(|d| !d.1).map(|d| d.0.clone()).collect();
        let after: Vec<String> = inner_decls.iter().filter(|d| d.1).map(|d| d.0.clone()).collect();
        for (t, a) in &outer {
            if !*a {
                s.push_str(t);
                s.push('\n');
            }
        }
        // decoys outside with the same names as the local declarations
        let outer_names: Vec<String> = outer
            .iter()
            .map(|(t, _)| t.trim_start_matches("export ").split_whitespace().nth(1).unwrap_or("").trim_end_matches('=').to_string())
            .collect();
        let mut names: Vec<String> = vec![];
        for d in &g.decls[n_outer..] {
            let t = d.text.trim_start_matches("export ");
            let name = t.split_whitespace().nth(1).unwrap_or("").trim_end_matches('=').to_string();
            if !name.is_empty() && !names.contains(&name) && !outer_names.contains(&name) {
                names.push(name);
            }
        }
        for n in &names {
            s.push_str(&format!("type {n} = {{ decoy_{n}: string }};\n"));
        }
        s.push_str("export const thunk0 = () => {\n");
        for d in &before {
            s.push_str(&format!("  {}\n", d.trim_start_matches("export ")));
        }
        s.push_str(&format!("  const r = defineComponent({setup}{options});\n"));
        for d in &after {
            s.push_str(&format!("  {}\n", d.trim_start_matches("export ")));
        }
        s.push_str("  return r;\n};\n");
        for (t, a) in &outer {
            if *a {
                s.push_str(t);
                s.push('\n');
            }
        }
    } else {
        for d in &before {
            s.push_str(d);
            s.push('\n');
        }
        s.push_str(&format!("export const Comp = defineComponent({setup}{options});\n"));
        for d in &after {
            s.push_str(d);
            s.push('\n');
        }
    }
    s
}

/// A local declaration that shadows an outer one of the same name and reaches it through an
/// intermediate outer declaration: `S0(inner) -> Mid -> S0(outer)` is not a cycle.
fn shadow_chain_case(g: &mut TypeGen) -> Case {
    let m: Vec<Prop> = g.prop_map(3, 7);
    let props: Vec<&Prop> = m.iter().collect();
    let n = props.len();
    if n < 3 {
        // (shrunk choice sequences can yield fewer members) plain single declaration
        let enc = g.enc(&m, 0);
        let src = assemble_dc(g, &enc, "", false, "");
        let mut case = Case::new(src, "tsx", Some(RT.into()));
        let expected: Vec<Value> = m.iter().map(|p| json!({"key": p.key, "required": !p.optional})).collect();
        case.extra = json!({"expected": expected, "negative": false});
        return case;
    }
    let i = 1 + g.c.pick(n - 2);
    let j = i + 1 + g.c.pick(n - i - 1);
    let part = |ps: &[&Prop]| ps.iter().map(|p| p.member()).collect::<Vec<_>>().join("; ");
    let (a, b, c3) = (part(&props[..i]), part(&props[i..j]), part(&props[j..]));
    let iface = g.c.bool();
    let (outer, mid, inner) = if iface {
        (
            format!("interface S0 {{ {a} }}"),
            format!("interface Mid extends S0 {{ {b} }}"),
            format!("interface S0 extends Mid {{ {c3} }}"),
        )
    } else {
        (
            format!("type S0 = {{ {a} }};"),
            format!("type Mid = S0 & {{ {b} }};"),
            format!("type S0 = Mid & {{ {c3} }};"),
        )
    };
    let wrap = g.c.pick(3);
    let use_ty = match wrap {
        0 => "S0".to_string(),
        1 => "S0 & {}".to_string(),
        _ => "(S0)".to_string(),
    };
    let body = if g.c.bool() {
        format!("const mk = () => {{\n  {inner}\n  return defineComponent((props: {use_ty}) => () => null);\n}};")
    } else {
        format!("function mk() {{\n  const r = defineComponent((props: {use_ty}) => () => null);\n  {inner}\n  return r;\n}}")
    };
    let src = format!("import {{ defineComponent }} from \"vue\";\n{outer}\n{mid}\n{body}\nexport const Comp = mk();\n");
    let mut case = Case::new(src, "tsx", Some(RT.into()));
    case.labels = g.labels.clone();
    case.label("shadowing-declaration-reaches-outer-namesake");
    case.label(if iface { "interface" } else { "alias" });
    let expected: Vec<Value> = m.iter().map(|p| json!({"key": p.key, "required": !p.optional})).collect();
    case.extra = json!({"expected": expected, "negative": false});
    case.nontrivial = true;
    case
}

pub fn gen_case(c: &mut Choices) -> Case {
    let mut g = TypeGen::new(c);
    let negative = g.c.chance(1, 12);
    if negative {
        let t = g.c.choose(&[
            "Imported",
            "Imported & { a: string }",
            "T extends U ? X : Y",
            "{ [K in \"a\" | \"b\"]: K }",
            "keyof Foo",
            "Pick<Imported, \"a\">",
            "Unknown1",
            "Readonly<{ a: string }>",
            // nothing is declared under these indices
            "{ a: { b: string } }[\"missing\"]",
            "({ a: { b: string } })[\"a\"][\"zz\"]",
            "{ a: { b: string } }[\"a\" | \"zz\"][\"nope\"]",
        ]);
        let src = assemble_dc(&mut g, t, "", false, "import { Imported } from \"other\";\n");
        let mut case = Case::new(src, "tsx", Some(RT.into()));
        case.extra = json!({"negative": true});
        case.label("negative");
        case.nontrivial = true;
        return case;
    }
    if g.c.chance(1, 12) {
        return shadow_chain_case(&mut g);
    }
    if g.c.chance(1, 16) {
        // `[ck]: T` members (named by a constant's value), written inline so that no utility
        // type has to look through the constant
        g.allow_computed_ident = true;
        let m: Vec<Prop> = g.prop_map(2, 5);
        g.allow_computed_ident = false;
        let members = m.iter().map(|p| p.member()).collect::<Vec<_>>().join("; ");
        let consts = g.decls.iter().map(|d| d.text.clone()).collect::<Vec<_>>().join("\n");
        let src = format!("import {{ defineComponent }} from \"vue\";\n{consts}\nexport const Comp = defineComponent((props: {{ {members} }}) => () => null);\n");
        let mut case = Case::new(src, "tsx", Some(RT.into()));
        case.labels = g.labels.clone();
        let expected: Vec<Value> = m.iter().map(|p| json!({"key": p.key, "required": !p.optional})).collect();
        case.extra = json!({"expected": expected, "negative": false});
        case.nontrivial = case.labels.iter().any(|l| l == "computed-identifier-key");
        return case;
    }
    let m: Vec<Prop> = g.prop_map(1, 7);
    let enc = g.enc(&m, 0);
    let local = g.c.chance(1, 5);
    // options the user wrote beside the derived props (an `emits` of their own does not make
    // the props theirs)
    let options = match g.c.pick(6) {
        0 => {
            g.label("user-options-with-emits");
            ", { emits: [\"x\"] }"
        }
        1 => {
            g.label("user-options-with-emits");
            ", { \"emits\": [\"x\"], inheritAttrs: false }"
        }
        2 => ", { inheritAttrs: false }",
        _ => "",
    };
    let src = assemble_dc_opts(&mut g, &enc, "", local, "", options);
    let mut case = Case::new(src, "tsx", Some(RT.into()));
    case.labels = g.labels.clone();
    let expected: Vec<Value> = m
        .iter()
        .map(|p| json!({"key": p.key, "required": !p.optional}))
        .collect();
    case.extra = json!({"expected": expected, "negative": false});
    if m.iter().any(|p| p.kind == Kind::Method) {
        case.label("method-member");
    }
    if m.iter().any(|p| p.kind == Kind::Getter) {
        case.label("getter-member");
    }
    if m.iter().any(|p| p.quoted) {
        case.label("quoted-key");
    }
    case.nontrivial = g.depth_reached >= 2
        || case.labels.iter().any(|l| l == "declaration-after-use" || l == "local-scope-with-decoys");
    case
}

pub fn eval_define(case: &Case, ctx: &mut Ctx, protocol: Value) -> Result<(Vec<String>, Value), Verdict> {
    let t = transform_for_eval(case)?;
    let env = json!({"bound": {}, "globals": {}});
    let env = if case.extra.get("env").is_some() { case.extra["env"].clone() } else { env };
    let results = node_eval(ctx, vec![("main", t.code.as_str())], &env, &protocol, Some("define"))?;
    let mut main = results["main"].clone();
    main["output"] = json!(t.code);
    Ok((t.diags, main))
}

impl Property for C16 {
    fn id(&self) -> &'static str {
        "C16"
    }
    fn rule(&self) -> String {
        "a finite prop map (1-7 keys: identifier / quoted / hyphenated / spaced keys; property, method and getter members; optional flags) and a random encoding tree that partitions the map and wraps the parts with: inline literal, alias, alias chain (1-3 hops), interface (merged declarations, extends of 1-2 named parents recursively), intersection, parentheses, export, Partial / Required (over re-flagged maps), Pick / Omit over a widened map (keys as literal union, alias of union, nested union), indexed access Box[\"k\"]; declarations placed before or after the call; module scope, or a local function scope with same-named decoys outside where a random prefix of the declarations stays at module level (local declarations then reach outer ones through extends / references); a local declaration shadowing an outer namesake that it reaches through an intermediate outer declaration; members named by a constant (`[ck]: T`); four setup forms (arrow, function, destructured, defaulted parameter). Negative cases (imported type, conditional / mapped / keyof / unknown reference) must yield >=1 error diagnostic. Oracle: the mock defineComponent records its arguments; Object.keys(options.props) as a set == declared key set, props[k].required == !optional(k); the module is evaluated in node after erasing TS syntax. non-trivial = encoding depth >=2, a declaration after the call, or a shadowing decoy; distinct by hash(source)".into()
    }
    fn assumptions(&self) -> Vec<String> {
        vec![
            "keys are disjoint across intersection / extends parts (duplicate-key merging has TS semantics the statement does not spell out)".into(),
            "getters are not placed under Partial / Required (TsGetterSignature has no optional flag; statement silent)".into(),
            "TS eraser (harness) strips types before evaluation".into(),
        ]
    }
    fn max_bytes(&self) -> usize {
        400
    }
    fn cases(&self, tier: Tier) -> u32 {
        match tier {
            Tier::Quick => 15_000,
            Tier::Thorough => 200_000,
        }
    }
    fn uses_node(&self) -> bool {
        true
    }
    fn generate(&self, c: &mut Choices) -> Case {
        gen_case(c)
    }
    fn check(&self, case: &Case, ctx: &mut Ctx) -> Verdict {
        let (diags, main) = match eval_define(case, ctx, json!({})) {
            Ok(x) => x,
            Err(v) => return v,
        };
        if case.extra["negative"].as_bool() == Some(true) {
            return if diags.is_empty() {
                Verdict::Violation {
                    kind: "unresolvable-type-not-reported".into(),
                    detail: json!({"output": main["output"]}),
                }
            } else {
                Verdict::Pass
            };
        }
        if !diags.is_empty() {
            return Verdict::Violation {
                kind: "resolvable-type-reported-as-error".into(),
                detail: json!({"diags": diags, "output": main["output"]}),
            };
        }
        if !main["error"].is_null() {
            return Verdict::Violation {
                kind: "evaluation-error".into(),
                detail: json!({"error": main["error"], "output": main["output"]}),
            };
        }
        let calls = main["calls"].as_array().cloned().unwrap_or_default();
        if calls.len() != 1 {
            return Verdict::Violation {
                kind: "defineComponent-call-count".into(),
                detail: json!({"calls": calls, "output": main["output"]}),
            };
        }
        let props = &calls[0]["props"];
        let expected = case.extra["expected"].as_array().cloned().unwrap_or_default();
        let mut want: Vec<(String, bool)> = expected
            .iter()
            .map(|e| (e["key"].as_str().unwrap_or("").to_string(), e["required"].as_bool().unwrap_or(false)))
            .collect();
        want.sort();
        let mut got: Vec<(String, Value)> = props
            .as_object()
            .map(|o| o.iter().map(|(k, v)| (k.clone(), v["required"].clone())).collect())
            .unwrap_or_default();
        got.sort_by(|a, b| a.0.cmp(&b.0));
        let same = want.len() == got.len()
            && want.iter().zip(got.iter()).all(|(w, g)| w.0 == g.0 && g.1 == json!(w.1));
        if !same {
            return Verdict::Violation {
                kind: "props-differ-from-declared".into(),
                detail: json!({"expected": want, "observed": got, "options": calls[0], "output": main["output"]}),
            };
        }
        Verdict::Pass
    }
    fn required_labels(&self) -> Vec<&'static str> {
        vec![
            "alias", "alias-chain", "interface", "interface-extends", "interface-merged", "intersection",
            "parenthesised", "Partial", "Required", "Pick", "Omit", "indexed-access", "keys-alias",
            "declaration-after-use", "local-scope-with-decoys", "exported-declaration", "negative",
            "method-member", "getter-member", "quoted-key",
        ]
    }
}
