//! C20 - resolveType augments only Vue's defineComponent and never overrides the user.

use serde_json::{json, Value};

use crate::choices::Choices;
use crate::props::c16::eval_define;
use crate::runner::{Case, Ctx, Property, Tier, Verdict};

pub struct C20;

const PROVENANCE: &[&str] = &[
    "vue-named", "vue-aliased-plus-local-same-name", "vue-aliased", "vue-other-export-as-defineComponent", "vue-namespace-member",
    "local-function", "shadowing-parameter", "shadowing-inner-const", "other-module", "global",
];

fn env(user_has: (bool, bool, bool)) -> Value {
    use crate::gen::jsx::*;
    let mut uo: Vec<(&str, Value)> = vec![("inheritAttrs", v_bool(false))];
    if user_has.0 {
        uo.push(("props", v_arr(vec![v_str("userProp")])));
    }
    if user_has.1 {
        uo.push(("emits", v_arr(vec![v_str("userEvent")])));
    }
    if user_has.2 {
        uo.push(("name", v_str("UserName")));
    }
    let e = Env {
        bound: vec![
            ("uo".into(), v_obj(uo.clone())),
            ("mk".into(), v_fn("mk", v_obj(uo))),
            // a second user options object carrying the keys the first one lacks
            ("uo2".into(), {
                let mut o: Vec<(&str, Value)> = vec![("inheritAttrs", v_bool(true))];
                if !user_has.0 {
                    o.push(("props", v_arr(vec![v_str("userProp2")])));
                }
                if !user_has.1 {
                    o.push(("emits", v_arr(vec![v_str("userEvent2")])));
                }
                if !user_has.2 {
                    o.push(("name", v_str("UserName2")));
                }
                v_obj(o)
            }),
            ("props".into(), v_arr(vec![v_str("shorthandProp")])),
            ("emits".into(), v_arr(vec![v_str("shorthandEvent")])),
            ("name".into(), v_str("ShorthandName")),
            ("args2".into(), v_arr(vec![v_fn("setupFromArgs", v_null()), v_obj(vec![("name", v_str("FromArgs"))])])),
            ("rest".into(), v_arr(vec![v_obj(vec![("props", v_arr(vec![v_str("restProp")]))])])),
            ("rec".into(), json!({"k": "recorder", "id": "rec"})),
            ("f2".into(), v_fn("f2", v_null())),
        ],
        globals: vec![("defineComponentGlobal".into(), json!({"k": "recorder", "id": "global"}))],
        factories: vec![],
    };
    e.json()
}

pub fn gen_case(c: &mut Choices) -> Case {
    let prov = PROVENANCE[c.weighted(&[8, 2, 2, 1, 2, 2, 2, 2, 2, 1])];
    let rt = c.chance(4, 5);
    let annotated = c.chance(3, 4);
    let setup = if annotated {
        if c.bool() {
            "(props: { a: string; b?: number }, ctx: SetupContext<(e: \"ev\") => void>) => () => null"
        } else {
            "function (props: { a: string; b?: number }, { emit }: SetupContext<(e: \"ev\") => void>) { return () => null; }"
        }
    } else {
        "(props, ctx) => () => null"
    };
    let user_has = (c.bool(), c.bool(), c.bool());
    // call shape
    let shape = c.weighted(&[4, 3, 3, 2, 2, 2, 2, 1, 1, 1, 2, 2]);
    let mut labels: Vec<String> = vec![];
    let mut written_keys: Vec<&str> = vec![]; // keys the user supplies (literally or at run time)
    let from_uo = |keys: &mut Vec<&'static str>| {
        if user_has.0 {
            keys.push("props");
        }
        if user_has.1 {
            keys.push("emits");
        }
        if user_has.2 {
            keys.push("name");
        }
    };
    let mut spread_args = false;
    let mut object_api = false;
    let args: String = match shape {
        0 => {
            labels.push("shape=setup-only".into());
            setup.to_string()
        }
        1 => {
            labels.push("shape=literal-without-keys".into());
            format!("{setup}, {{ inheritAttrs: false }}")
        }
        2 => {
            // literal with some of the keys in various spellings
            let mut parts = vec![];
            if c.bool() {
                parts.push(match c.pick(5) {
                    0 => "props: [\"lit\"]",
                    1 => "\"props\": [\"lit\"]",
                    2 => "[\"props\"]: [\"lit\"]",
                    3 => "get props() { return [\"lit\"]; }",
                    _ => "props",
                });
                written_keys.push("props");
            }
            if c.bool() {
                parts.push(match c.pick(5) {
                    0 => "emits: [\"litEv\"]",
                    1 => "\"emits\": [\"litEv\"]",
                    2 => "[\"emits\"]: [\"litEv\"]",
                    3 => "get emits() { return [\"litEv\"]; }",
                    _ => "emits",
                });
                written_keys.push("emits");
            }
            if c.bool() {
                parts.push(match c.pick(5) {
                    0 => "name: \"LitName\"",
                    1 => "\"name\": \"LitName\"",
                    2 => "[\"name\"]: \"LitName\"",
                    3 => "get name() { return \"LitName\"; }",
                    _ => "name",
                });
                written_keys.push("name");
            }
            parts.push("inheritAttrs: true");
            labels.push("shape=literal-with-keys".into());
            if parts.iter().any(|p| p.starts_with('"')) {
                labels.push("quoted-option-key".into());
            }
            if parts.iter().any(|p| p.starts_with('[') || p.starts_with("get ")) {
                labels.push("computed-or-getter-option-key".into());
            }
            if parts.iter().any(|p| *p == "props" || *p == "emits" || *p == "name") {
                labels.push("shorthand-option-key".into());
            }
            let mut lit = format!("{{ {} }}", parts.join(", "));
            if c.chance(1, 6) {
                // redundant parentheses around a literal computed key
                for k in ["props", "emits", "name"] {
                    lit = lit.replace(&format!("[\"{k}\"]:"), &format!("[(\"{k}\")]:"));
                }
                labels.push("parenthesised-computed-option-key".into());
            }
            if c.chance(1, 5) {
                // ... and around the options literal itself
                labels.push("parenthesised-options-literal".into());
                lit = format!("({lit})");
            }
            format!("{setup}, {lit}")
        }
        3 => {
            labels.push("shape=literal-spread-first".into());
            from_uo(&mut written_keys);
            format!("{setup}, {{ ...uo, inheritAttrs: true }}")
        }
        4 => {
            labels.push("shape=literal-spread-last".into());
            from_uo(&mut written_keys);
            format!("{setup}, {{ inheritAttrs: true, ...uo }}")
        }
        5 => {
            labels.push("shape=identifier-options".into());
            from_uo(&mut written_keys);
            if c.chance(1, 3) {
                // a further argument after the options must stay where it is
                labels.push("shape=third-argument".into());
                format!("{setup}, uo, uo2")
            } else {
                format!("{setup}, uo")
            }
        }
        6 => {
            labels.push("shape=call-options".into());
            from_uo(&mut written_keys);
            if c.chance(1, 3) {
                labels.push("shape=third-argument".into());
                format!("{setup}, mk(), uo2")
            } else {
                format!("{setup}, mk()")
            }
        }
        7 => {
            labels.push("shape=spread-args-0".into());
            spread_args = true;
            if c.bool() {
                "...args2".to_string()
            } else {
                // the spread need not be the last argument
                labels.push("shape=spread-args-not-last".into());
                "...args2, uo".to_string()
            }
        }
        8 => {
            labels.push("shape=spread-args-1".into());
            spread_args = true;
            if c.bool() {
                format!("{setup}, ...rest")
            } else {
                labels.push("shape=spread-args-not-last".into());
                format!("{setup}, ...rest, uo")
            }
        }
        9 => {
            labels.push("shape=options-api-object".into());
            object_api = true;
            "{ setup() { return () => null; }, props: [\"x\"] }".to_string()
        }
        10 => {
            // two spreads: between them every one of props / emits / name is user-supplied
            labels.push("shape=literal-two-spreads".into());
            written_keys.push("props");
            written_keys.push("emits");
            written_keys.push("name");
            if c.bool() {
                format!("{setup}, {{ ...uo, inheritAttrs: false, ...uo2 }}")
            } else {
                format!("{setup}, {{ ...uo2, ...uo }}")
            }
        }
        _ => {
            labels.push("shape=literal-mixed-spread".into());
            from_uo(&mut written_keys);
            written_keys.push("name");
            format!("{setup}, {{ name: \"LitName\", ...uo }}")
        }
    };
    // provenance prelude and callee
    let (prelude, callee, wrap_open, wrap_close): (String, &str, String, String) = match prov {
        "vue-named" => ("import { defineComponent } from \"vue\";\n".into(), "defineComponent", String::new(), String::new()),
        "vue-aliased-plus-local-same-name" => (
            if c.bool() {
                "import { defineComponent as defineVueComponent } from \"vue\";\nfunction defineComponent(...a) { return rec(...a); }\n".into()
            } else {
                "import { defineComponent as defineVueComponent } from \"vue\";\nimport { defineComponent } from \"other\";\n".into()
            },
            "defineComponent",
            String::new(),
            String::new(),
        ),
        "vue-aliased" => ("import { defineComponent as dc } from \"vue\";\n".into(), "dc", String::new(), String::new()),
        "vue-other-export-as-defineComponent" => ("import { h as defineComponent } from \"vue\";\n".into(), "defineComponent", String::new(), String::new()),
        "vue-namespace-member" => ("import * as V from \"vue\";\n".into(), "V.defineComponent", String::new(), String::new()),
        "local-function" => ("function defineComponent(...a) { return rec(...a); }\n".into(), "defineComponent", String::new(), String::new()),
        "shadowing-parameter" => (
            "import { defineComponent } from \"vue\";\n".into(),
            "defineComponent",
            "export const thunkS = ((defineComponent) => {\n".into(),
            "\n  return 1;\n})".into(),
        ),
        "shadowing-inner-const" => (
            "import { defineComponent } from \"vue\";\n".into(),
            "defineComponent",
            "export const thunkS = () => {\n  const defineComponent = rec;\n".into(),
            "\n  return 1;\n};".into(),
        ),
        "other-module" => ("import { defineComponent } from \"other\";\n".into(), "defineComponent", String::new(), String::new()),
        _ => (String::new(), "defineComponentGlobal", String::new(), String::new()),
    };
    let call = format!("{callee}({args})");
    let decl_kind = c.pick(7);
    let (stmt, declarator): (String, bool) = match decl_kind {
        0 => (format!("const Widget = {call};"), true),
        1 => (format!("let Widget = {call};"), true),
        2 => (format!("var Widget = {call};"), true),
        3 => {
            if wrap_open.is_empty() {
                (format!("export const Widget = {call};"), true)
            } else {
                (format!("const Widget = {call};"), true)
            }
        }
        4 => {
            if wrap_open.is_empty() {
                (format!("export default {call};"), false)
            } else {
                (format!("f2({call});"), false)
            }
        }
        5 => (format!("let Widget;\nWidget = {call};"), false),
        _ => (format!("f2({call});"), false),
    };
    labels.push(format!("decl={}", ["const", "let", "var", "export-const", "export-default", "assignment", "argument"][decl_kind]));
    let body = if wrap_open.is_empty() {
        stmt
    } else if prov == "shadowing-parameter" {
        format!("{wrap_open}  {}{wrap_close}(rec);", stmt.replace('\n', "\n  "))
    } else {
        format!("{wrap_open}  {}{wrap_close}", stmt.replace('\n', "\n  "))
    };
    let src = format!(
        "{prelude}import {{ uo, uo2, mk, props, emits, name, args2, rest, rec, f2 }} from \"env\";\n{body}\n"
    );
    let opts_on = format!("{{\"resolveType\":{rt}}}");
    let mut case = Case::new(src, "tsx", Some(opts_on));
    case.labels = labels;
    case.label(format!("provenance={prov}"));
    case.label(format!("resolveType={rt}"));
    let augment = prov == "vue-named" && rt && !spread_args;
    case.extra = json!({
        "env": env(user_has),
        "augment": augment,
        "annotated": annotated,
        "declarator": declarator,
        "user_keys": written_keys,
        "object_api": object_api,
        "spread_args": spread_args,
    });
    if augment && !case.extra["user_keys"].as_array().unwrap().is_empty() {
        case.label("user-key-present");
    }
    case.nontrivial = (augment && !written_keys.is_empty()) || (prov != "vue-named" && annotated && rt);
    case
}

fn obj_entries(v: &Value) -> Option<Vec<(String, Value)>> {
    if v["$"] != "o" {
        return None;
    }
    Some(
        v["e"]
            .as_array()?
            .iter()
            .map(|kv| (kv[0].as_str().unwrap_or("").to_string(), kv[1].clone()))
            .collect(),
    )
}

impl Property for C20 {
    fn id(&self) -> &'static str {
        "C20"
    }
    fn rule(&self) -> String {
        "binding provenance of the callee {named import from 'vue'; aliased import; another vue export imported as defineComponent; namespace member; local function; shadowing parameter; shadowing inner const; named import from another module; global} x call shape {setup only; object literal without / with props, emits, name written as key: v, \"key\": v, [\"key\"]: v, a getter or shorthand; literal with a spread first / last / mixed; identifier or call as options; spread argument list at index 0 / 1, last or followed by another argument; options-API object} x declaration kind {const / let / var declarator, export const, export default, assignment, argument position} x annotated or plain setup x resolveType on/off; the env supplies user option objects that do / do not contain props, emits, name. Oracle: every call is recorded (mock vue defineComponent, 'other' module stub, local / global recorders); the same module transformed with resolveType off gives the written arguments; expected: non-augmentable calls (any provenance but the vue named import, resolveType off, spread argument list) receive exactly the written arguments; augmentable calls receive the written options plus props / emits (from the annotations) / name (variable declarators only) for exactly the keys the user did not supply, the user's values (literal or through a spread / identifier / call at run time) always winning. non-trivial = user-supplied key present on an augmentable call, or non-vue provenance with an annotated setup and resolveType on; distinct by hash(source, options, env)".into()
    }
    fn assumptions(&self) -> Vec<String> {
        vec![
            "options-API object as first argument: an extra `{ name }` argument (ignored by Vue) is accepted, nothing else".into(),
            "method-form option keys are not generated".into(),
        ]
    }
    fn max_bytes(&self) -> usize {
        100
    }
    fn cases(&self, tier: Tier) -> u32 {
        match tier {
            Tier::Quick => 15_000,
            Tier::Thorough => 150_000,
        }
    }
    fn uses_node(&self) -> bool {
        true
    }
    fn generate(&self, c: &mut Choices) -> Case {
        let mut case = gen_case(c);
        let k = crate::choices::hash64(&case.extra["env"].to_string());
        case.extra["distinct_key"] = json!(k);
        case
    }
    fn check(&self, case: &Case, ctx: &mut Ctx) -> Verdict {
        let proto = json!({"rawArgs": true});
        let (diags, main) = match eval_define(case, ctx, proto.clone()) {
            Ok(x) => x,
            Err(v) => return v,
        };
        let mut base_case = case.clone();
        base_case.options = Some("{\"resolveType\":false}".into());
        let (_, base) = match eval_define(&base_case, ctx, proto) {
            Ok(x) => x,
            Err(v) => return v,
        };
        if !diags.is_empty() {
            return Verdict::Violation {
                kind: "unexpected-diagnostic".into(),
                detail: json!({"diags": diags, "output": main["output"]}),
            };
        }
        if !base["error"].is_null() {
            return Verdict::Infra(format!("baseline module failed: {} \n{}", base["error"], base["output"]));
        }
        if !main["error"].is_null() {
            return Verdict::Violation {
                kind: "evaluation-error".into(),
                detail: json!({"error": main["error"], "output": main["output"]}),
            };
        }
        let calls = |r: &Value| -> Vec<Value> {
            let mut v: Vec<Value> = r["calls"].as_array().map(|a| a.iter().map(|c| c["args"].clone()).collect()).unwrap_or_default();
            v.extend(r["recorded"].as_array().map(|a| a.iter().map(|c| c["args"].clone()).collect::<Vec<_>>()).unwrap_or_default());
            v
        };
        let got = calls(&main);
        let want = calls(&base);
        if got.len() != 1 || want.len() != 1 {
            return Verdict::Infra(format!("expected exactly one recorded call, got {} / {}\n{}", got.len(), want.len(), main["output"]));
        }
        let got = got[0].as_array().cloned().unwrap_or_default();
        let want = want[0].as_array().cloned().unwrap_or_default();
        let fail = |kind: &str, extra: Value| Verdict::Violation {
            kind: kind.to_string(),
            detail: json!({"written_args": want, "received_args": got, "info": extra, "output": main["output"]}),
        };
        if case.extra["augment"].as_bool() != Some(true) {
            if got != want {
                return fail("non-augmentable-call-changed", json!(null));
            }
            return Verdict::Pass;
        }
        if case.extra["object_api"].as_bool() == Some(true) {
            // only an extra `{ name }` argument is tolerated
            if got == want {
                return Verdict::Pass;
            }
            if got.len() == want.len() + 1 && got[..want.len()] == want[..] {
                if let Some(es) = obj_entries(&got[want.len()]) {
                    if es.len() == 1 && es[0].0 == "name" {
                        return Verdict::Pass;
                    }
                }
            }
            return fail("options-api-component-changed", json!(null));
        }
        // augmentable: first argument untouched
        if got.first() != want.first() {
            return fail("setup-argument-changed", json!(null));
        }
        let user: Vec<(String, Value)> = match want.get(1) {
            None => vec![],
            Some(v) => match obj_entries(v) {
                Some(e) => e,
                None => return Verdict::Discard("user-options-not-an-object".into()),
            },
        };
        let mut expected: Vec<(String, Value)> = user.clone();
        let has = |k: &str| user.iter().any(|(n, _)| n == k);
        let annotated = case.extra["annotated"].as_bool() == Some(true);
        if annotated && !has("props") {
            expected.push(("props".into(), json!({"$": "o", "e": [
                ["a", {"$": "o", "e": [["required", true], ["type", {"$": "fn", "id": "anon"}]]}],
                ["b", {"$": "o", "e": [["required", false], ["type", {"$": "fn", "id": "anon"}]]}]
            ]})));
        }
        if annotated && !has("emits") {
            expected.push(("emits".into(), json!(["ev"])));
        }
        if case.extra["declarator"].as_bool() == Some(true) && !has("name") {
            expected.push(("name".into(), json!("Widget")));
        }
        expected.sort_by(|a, b| a.0.cmp(&b.0));
        if expected.is_empty() {
            // nothing to add: the call must be as written
            if got != want {
                return fail("call-changed-without-reason", json!(null));
            }
            return Verdict::Pass;
        }
        if got.len() != want.len().max(2) {
            return fail("argument-count", json!({"expected_options": expected}));
        }
        if got.len() > 2 && got[2..] != want[2..] {
            return fail("arguments-after-the-options-changed", json!(null));
        }
        let mut observed = match obj_entries(&got[1]) {
            Some(e) => e,
            None => return fail("options-not-an-object", json!(null)),
        };
        observed.sort_by(|a, b| a.0.cmp(&b.0));
        if observed != expected {
            return fail(
                "options-differ",
                json!({"expected_options": expected, "observed_options": observed, "user_keys": case.extra["user_keys"]}),
            );
        }
        Verdict::Pass
    }
    fn required_labels(&self) -> Vec<&'static str> {
        vec![
            "provenance=vue-named", "provenance=vue-aliased", "provenance=vue-aliased-plus-local-same-name", "provenance=vue-namespace-member",
            "provenance=local-function", "provenance=shadowing-parameter", "provenance=shadowing-inner-const",
            "provenance=other-module", "provenance=global", "shape=literal-with-keys", "shape=literal-spread-first",
            "shape=literal-spread-last", "shape=identifier-options", "shape=call-options", "shape=spread-args-0",
            "shape=spread-args-1", "shape=spread-args-not-last", "shape=options-api-object", "shape=literal-two-spreads", "quoted-option-key", "shorthand-option-key",
            "resolveType=false", "user-key-present", "decl=export-default", "decl=assignment",
        ]
    }
}
