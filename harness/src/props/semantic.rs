//! Shared judge for the "run it" properties: transform the JSX module, evaluate it and the
//! reference lowering in node against the same environment, compare canonical values.

use serde_json::{json, Value};

use crate::choices::Choices;
use crate::driver::{with_transform, Lang, Rejected};
use crate::gen::jsx::Node;
use crate::gen::opts::{any_opts, Opts};
use crate::gen::sem::{Sem, SemCfg};
use crate::runner::{Case, Ctx, Verdict};

/// Structural comparison with `$oneof` wildcards in `expected`. Returns the path of the first
/// mismatch.
pub fn json_match(expected: &Value, observed: &Value, path: &mut String) -> Result<(), String> {
    if let Some(alts) = expected.get("$oneof").and_then(|a| a.as_array()) {
        for a in alts {
            let mut p = path.clone();
            if json_match(a, observed, &mut p).is_ok() {
                return Ok(());
            }
        }
        return Err(path.clone());
    }
    match (expected, observed) {
        (Value::Object(e), Value::Object(o)) => {
            for (k, ev) in e {
                let len = path.len();
                path.push('.');
                path.push_str(k);
                match o.get(k) {
                    Some(ov) => json_match(ev, ov, path)?,
                    None => return Err(path.clone()),
                }
                path.truncate(len);
            }
            for k in o.keys() {
                if !e.contains_key(k) {
                    return Err(format!("{path}.{k} (unexpected)"));
                }
            }
            Ok(())
        }
        (Value::Array(e), Value::Array(o)) => {
            if e.len() != o.len() {
                return Err(format!("{path}.length ({} vs {})", e.len(), o.len()));
            }
            for (i, (ev, ov)) in e.iter().zip(o.iter()).enumerate() {
                let len = path.len();
                path.push_str(&format!("[{i}]"));
                json_match(ev, ov, path)?;
                path.truncate(len);
            }
            Ok(())
        }
        (e, o) => {
            if e == o {
                Ok(())
            } else {
                Err(path.clone())
            }
        }
    }
}

pub struct Transformed {
    pub code: String,
    pub diags: Vec<String>,
}

/// transform + print; Err(verdict) when the case cannot be judged semantically
pub fn transform_for_eval(case: &Case) -> Result<Transformed, Verdict> {
    let lang = Lang::from_str(&case.lang);
    let r = with_transform(&case.source, lang, case.options.as_deref(), |t| {
        if let Some(p) = &t.panicked {
            return Err(Verdict::Violation {
                kind: "transform-panicked".into(),
                detail: json!({"message": p}),
            });
        }
        let raw = t.raw.as_ref().unwrap();
        let code = if lang == Lang::Tsx {
            use swc_core::ecma::visit::VisitMutWith;
            let mut m = raw.clone();
            m.visit_mut_with(&mut crate::driver::TsEraser);
            t.print_final(&m)
        } else {
            t.print_final(raw)
        };
        match code {
            Ok(code) => Ok(Transformed {
                code,
                diags: t.diags.clone(),
            }),
            Err(e) => Err(Verdict::Violation {
                kind: "output-unprintable".into(),
                detail: json!({"message": e}),
            }),
        }
    });
    match r {
        Ok(x) => x,
        Err(Rejected::Options(e)) => Err(Verdict::Infra(format!("generated options rejected: {e}"))),
        Err(Rejected::Parse(e)) => Err(Verdict::Discard(format!("parser-rejected:{e}"))),
        Err(Rejected::ParserPanic(_)) => Err(Verdict::Discard("parser-panicked".into())),
    }
}

pub fn node_eval(
    ctx: &mut Ctx,
    modules: Vec<(&str, &str)>,
    env: &Value,
    protocol: &Value,
    mode: Option<&str>,
) -> Result<Value, Verdict> {
    let mods: Vec<Value> = modules
        .iter()
        .map(|(n, c)| json!({"name": n, "code": c}))
        .collect();
    let mut req = json!({"modules": mods, "env": env, "protocol": protocol});
    if let Some(m) = mode {
        req["mode"] = json!(m);
    }
    let mut last_err = String::new();
    // one retry in a fresh evaluator process: a dead child must be reproducible to count
    for _attempt in 0..2 {
        let node = match ctx.node() {
            Ok(n) => n,
            Err(e) => return Err(Verdict::Infra(e)),
        };
        match node.request(req.clone()) {
            Ok(v) => {
                if let Some(f) = v.get("fatal") {
                    ctx.node = None;
                    last_err = format!("evaluator fatal: {f}");
                    continue;
                }
                return Ok(v["results"].clone());
            }
            Err(e) => {
                ctx.node = None;
                last_err = e;
            }
        }
    }
    // keep the request that killed the evaluator twice (diagnosis only; git-ignored directory)
    let dir = crate::runner::verif_root().join("replays").join("found");
    let _ = std::fs::create_dir_all(&dir);
    let h = crate::choices::hash64(&req.to_string());
    let _ = std::fs::write(dir.join(format!("infra-request-{h:016x}.json")), req.to_string());
    Err(Verdict::Infra(last_err))
}

/// Compare main against each reference variant; Ok if any matches.
pub fn compare_to_refs(results: &Value, n_refs: usize, keys: &[&str]) -> Result<(), Value> {
    let main = &results["main"];
    let mut first_err = None;
    for i in 0..n_refs {
        let r = &results[format!("ref{i}")];
        let mut ok = true;
        let mut where_ = String::new();
        for k in keys {
            let mut path = format!("${k}");
            if let Err(p) = json_match(&r[*k], &main[*k], &mut path) {
                ok = false;
                where_ = p;
                break;
            }
        }
        if ok {
            return Ok(());
        }
        if first_err.is_none() {
            first_err = Some(json!({"mismatch_at": where_, "variant": i}));
        }
    }
    Err(first_err.unwrap_or(Value::Null))
}

fn pick<'a>(v: &'a Value, path: &str) -> Value {
    // path like "$exports.s0.props.class" -> sub value (best effort, for the report)
    let mut cur = v;
    let p = path.trim_start_matches('$');
    let mut tok = String::new();
    let mut toks = vec![];
    for ch in p.chars() {
        match ch {
            '.' | '[' | ']' => {
                if !tok.is_empty() {
                    toks.push(std::mem::take(&mut tok));
                }
            }
            c => tok.push(c),
        }
    }
    if !tok.is_empty() {
        toks.push(tok);
    }
    for t in toks {
        if t.contains(' ') {
            break;
        }
        let next = if let Ok(i) = t.parse::<usize>() {
            cur.get(i)
        } else {
            cur.get(&t)
        };
        match next {
            Some(n) => cur = n,
            None => break,
        }
    }
    cur.clone()
}

/// Known-finding lenses: rewrite the *expected* canonical values at exactly the affected spots
/// into the known-defective value. Each lens has a shape predicate on the case.
fn apply_lens(id: &str, case: &Case, expected: &Value) -> Option<Value> {
    match id {
        // D10: computed v-model argument -> listener key "onUpdate" + arg (colon missing)
        "D10" => {
            if !case.labels.iter().any(|l| l == "vmodel-dynamic-arg") {
                return None;
            }
            let s = expected.to_string();
            if !s.contains("onUpdate:dynArg") {
                return None;
            }
            let mut v: Value = serde_json::from_str(&s.replace("onUpdate:dynArg", "onUpdatedynArg")).ok()?;
            // the listener record is sorted by key: restore the order under the new key
            if let Some(f) = v.get_mut("fired").and_then(|f| f.as_array_mut()) {
                f.sort_by_key(|e| {
                    format!("{}#{}", e["key"].as_str().unwrap_or(""), e["occurrence"].as_u64().unwrap_or(0))
                });
            }
            Some(v)
        }
        _ => None,
    }
}

const LENSES: &[&str] = &["D10"];

/// Inputs for which the statements model no successful lowering (a `v-slots` value on a host whose
/// children are not slots, a second `v-slots`): either the transform reports an error, or the
/// parts of the statements that still apply must hold - the written expression is evaluated
/// exactly once at creation (C11) and an element without children gets `null` (C02).
pub fn misuse_case(jsx: &str, leaf: Option<&str>, children_null: bool) -> Case {
    let src = format!("import {{ C1, sl1, x }} from \"env\";\nlet m = 1;\nexport const e0 = {jsx};\n");
    let mut case = Case::new(src, "jsx", Some("{}".into()));
    use crate::gen::jsx::*;
    let env = Env {
        bound: vec![
            ("C1".into(), v_comp("C1")),
            ("x".into(), v_str("xv")),
            ("sl1".into(), v_obj(vec![("named", v_fn("sl1.named", v_str("r")))])),
        ],
        globals: vec![(
            "t".into(),
            json!({"k":"tracer","id":"t","rets": {}, "default": {"k":"obj","v":{"named":{"k":"fn","id":"t.named","ret":{"k":"undef"}}}}}),
        )],
        factories: vec![],
    };
    case.extra = json!({"env": env.json(), "misuse": {"leaf": leaf, "children_null": children_null}});
    case.nontrivial = true;
    case.label("misuse-must-be-reported-or-harmless");
    case
}

fn judge_misuse(case: &Case, ctx: &mut Ctx, diags: &[String], code: &str) -> Verdict {
    if !diags.is_empty() {
        return Verdict::Pass;
    }
    let results = match node_eval(ctx, vec![("main", code)], &case.extra["env"], &json!({"trace": true}), None) {
        Ok(r) => r,
        Err(v) => return v,
    };
    let m = &results["main"];
    if !m["error"].is_null() {
        return Verdict::Violation {
            kind: "evaluation-error".into(),
            detail: json!({"error": m["error"], "output": code}),
        };
    }
    if let Some(leaf) = case.extra["misuse"]["leaf"].as_str() {
        let n = m["creation_trace"].as_array().map(|a| a.iter().filter(|e| e.as_str() == Some(leaf)).count()).unwrap_or(0);
        if n != 1 {
            return Verdict::Violation {
                kind: "expression-not-evaluated-once-and-nothing-reported".into(),
                detail: json!({"leaf": leaf, "evaluations": n, "trace": m["creation_trace"], "output": code}),
            };
        }
    }
    if case.extra["misuse"]["children_null"].as_bool() == Some(true) && !m["exports"]["e0"]["children"].is_null() {
        return Verdict::Violation {
            kind: "children-not-null-and-nothing-reported".into(),
            detail: json!({"children": m["exports"]["e0"]["children"], "output": code}),
        };
    }
    Verdict::Pass
}

pub fn judge_semantic(case: &Case, ctx: &mut Ctx) -> Verdict {
    judge_semantic_for(case, ctx, "")
}

/// Full semantic judgement of a case produced by `sem_case`.
pub fn judge_semantic_for(case: &Case, ctx: &mut Ctx, prop: &str) -> Verdict {
    let t = match transform_for_eval(case) {
        Ok(t) => t,
        Err(v) => return v,
    };
    if case.extra.get("misuse").is_some() {
        return judge_misuse(case, ctx, &t.diags, &t.code);
    }
    if !t.diags.is_empty() {
        return Verdict::Violation {
            kind: "unexpected-diagnostic".into(),
            detail: json!({"diags": t.diags}),
        };
    }
    let refs: Vec<String> = case.extra["refs"]
        .as_array()
        .map(|a| a.iter().map(|s| s.as_str().unwrap_or("").to_string()).collect())
        .unwrap_or_default();
    let mut modules: Vec<(String, String)> = vec![("main".into(), t.code.clone())];
    for (i, r) in refs.iter().enumerate() {
        modules.push((format!("ref{i}"), r.clone()));
    }
    let mods: Vec<(&str, &str)> = modules.iter().map(|(a, b)| (a.as_str(), b.as_str())).collect();
    let results = match node_eval(ctx, mods, &case.extra["env"], &case.extra["protocol"], None) {
        Ok(r) => r,
        Err(v) => return v,
    };
    // the reference itself must evaluate
    for i in 0..refs.len() {
        if !results[format!("ref{i}")]["error"].is_null() {
            return Verdict::Infra(format!(
                "reference program failed to evaluate: {} \n--- reference:\n{}",
                results[format!("ref{i}")]["error"], refs[i]
            ));
        }
    }
    // leaves whose position is not ordered by the statement (directive values / arguments) are
    // compared as a multiset per trace segment
    let mut results = results;
    if let Some(un) = case.extra["unordered_leaves"].as_array() {
        let un: Vec<String> = un.iter().filter_map(|v| v.as_str().map(|s| s.to_string())).collect();
        let multi: Vec<String> = case.extra["multi_leaves"]
            .as_array()
            .map(|a| a.iter().filter_map(|v| v.as_str().map(|s| s.to_string())).collect())
            .unwrap_or_default();
        let split = |t: &Value| -> Value {
            let mut ordered: Vec<Value> = vec![];
            let mut unordered = vec![];
            // unordered leaves are counted per slot-invocation segment
            let mut seg = 0usize;
            let mut run: (String, usize) = (String::new(), 0);
            for e in t.as_array().cloned().unwrap_or_default() {
                let s = e.as_str().unwrap_or("").to_string();
                if !multi.contains(&s) {
                    run = (String::new(), 0);
                }
                if s.starts_with("slot:") {
                    seg += 1;
                }
                if un.contains(&s) {
                    unordered.push(format!("{seg}:{s}"));
                } else if multi.contains(&s) {
                    // up to three consecutive evaluations of a computed v-model argument
                    // (once per generated prop key) count as one; a 4th is kept and will
                    // differ from the reference
                    if run.0 == s && run.1 < 3 {
                        run.1 += 1;
                        continue;
                    }
                    run = (s.clone(), 1);
                    ordered.push(e);
                } else {
                    ordered.push(e);
                }
            }
            unordered.sort();
            json!({"ordered": ordered, "unordered": unordered})
        };
        if let Some(obj) = results.as_object_mut() {
            for (_, r) in obj.iter_mut() {
                if r.get("creation_trace").is_some() {
                    let v = split(&r["creation_trace"]);
                    r["creation_trace"] = v;
                }
                if let Some(tr) = r.get_mut("traces").and_then(|t| t.as_object_mut()) {
                    for (_, t) in tr.iter_mut() {
                        let v = split(t);
                        *t = v;
                    }
                }
            }
        }
    }
    // order within a trace segment not fixed by the statements (directive values): compare each
    // segment (creation; between two slot invocations) as a multiset
    if case.extra["traces_unordered"].as_bool() == Some(true) {
        let norm = |t: &Value| -> Value {
            let mut out: Vec<Value> = vec![];
            let mut seg: Vec<String> = vec![];
            for e in t.as_array().cloned().unwrap_or_default() {
                let s = e.as_str().unwrap_or("").to_string();
                if s.starts_with("slot:") {
                    seg.sort();
                    out.extend(seg.drain(..).map(Value::from));
                    out.push(Value::from(s));
                } else {
                    seg.push(s);
                }
            }
            seg.sort();
            out.extend(seg.drain(..).map(Value::from));
            Value::Array(out)
        };
        if let Some(obj) = results.as_object_mut() {
            for (_, r) in obj.iter_mut() {
                if r.get("creation_trace").is_some() {
                    let v = norm(&r["creation_trace"]);
                    r["creation_trace"] = v;
                }
                if let Some(tr) = r.get_mut("traces").and_then(|t| t.as_object_mut()) {
                    for (_, t) in tr.iter_mut() {
                        let v = norm(t);
                        *t = v;
                    }
                }
            }
        }
    }
    let mut keys = vec!["error", "exports"];
    if case.extra["traces_only"].as_bool() == Some(true) {
        // order/count properties: values are the business of C01-C05
        keys = vec!["error"];
    }
    if case.extra["protocol"]["fireListeners"].as_bool() == Some(true) {
        keys.push("fired");
    }
    if case.extra["compare_traces"].as_bool() == Some(true) {
        keys.push("creation_trace");
        keys.push("traces");
    }
    match compare_to_refs(&results, refs.len(), &keys) {
        Ok(()) => Verdict::Pass,
        Err(info) => {
            // does the difference match a listed known finding exactly?
            for id in LENSES {
                if !ctx.findings.known(id, prop) {
                    continue;
                }
                let mut lensed = results.clone();
                let mut applied = false;
                for i in 0..refs.len() {
                    let k = format!("ref{i}");
                    if let Some(v) = apply_lens(id, case, &results[&k]) {
                        lensed[&k] = v;
                        applied = true;
                    }
                }
                if applied && compare_to_refs(&lensed, refs.len(), &keys).is_ok() {
                    return Verdict::Known(id.to_string());
                }
            }
            let at = info["mismatch_at"].as_str().unwrap_or("").to_string();
            let variant = info["variant"].as_u64().unwrap_or(0);
            Verdict::Violation {
                kind: "value-mismatch".into(),
                detail: json!({
                    "mismatch_at": at,
                    "expected_there": pick(&results[format!("ref{variant}")], &at),
                    "observed_there": pick(&results["main"], &at),
                    "output": t.code,
                    "reference": refs.get(variant as usize),
                    "observed_error": results["main"]["error"],
                }),
            }
        }
    }
}

pub struct SemCase {
    pub case: Case,
    pub stmts: Vec<(String, Node)>,
    pub n_exprs: usize,
    pub n_elements: usize,
    pub opts: Opts,
    pub value_kinds: Vec<(String, &'static str)>,
    pub unordered_leaves: Vec<String>,
    pub multi_leaves: Vec<String>,
}

/// Build a semantic case with `n` exported JSX statements.
pub fn sem_case(
    c: &mut Choices,
    cfg: SemCfg,
    allow_pragma: bool,
    max_stmts: usize,
    protocol: Value,
) -> SemCase {
    let opts = any_opts(c, allow_pragma, false);
    let mut g = Sem::new(c, cfg, opts.clone());
    let n = g.c.range(1, max_stmts);
    let mut stmts = vec![];
    for i in 0..n {
        let node = g.node(0);
        stmts.push((format!("e{i}"), node));
    }
    let (main, refs) = g.assemble(&stmts);
    let mut case = Case::new(main, "jsx", Some(opts.json()));
    case.labels = g.labels.clone();
    case.label(opts.label());
    case.extra = json!({
        "env": g.env.json(),
        "refs": refs,
        "protocol": protocol,
    });
    SemCase {
        case,
        stmts,
        n_exprs: g.n_exprs,
        n_elements: g.n_elements,
        opts,
        value_kinds: g.value_kinds.clone(),
        unordered_leaves: g.unordered_leaves.clone(),
        multi_leaves: g.multi_leaves.clone(),
    }
}
