//! C17 - inferred runtime prop types accept every value of the declared TS type.
//! C19 - resolveType derives exactly the declared emitted events.

use serde_json::{json, Value};

use crate::choices::Choices;
use crate::gen::types::{RtGen, RtType, TypeGen};
use crate::props::c16::{assemble_dc_opts, eval_define};
use crate::runner::{Case, Ctx, Property, Tier, Verdict};

pub struct C17;

const RT: &str = "{\"resolveType\":true}";

pub fn gen_c17(c: &mut Choices) -> Case {
    let mut g = RtGen::new(c);
    let n = g.c.range(1, 3);
    let mut members = vec![];
    let mut expected = vec![];
    let mut inhabitants = serde_json::Map::new();
    let mut max_depth = 0;
    // the same prop declared by both members of a union of object types, spelled differently:
    // one prop whose type is the union of the two member types
    let mut second_branch: Option<String> = None;
    for i in 0..n {
        let mut t: RtType = g.ty(0);
        let optional = g.c.chance(1, 3);
        let key = format!("p{i}");
        if i == 0 && g.c.chance(1, 10) {
            let u = g.ty(1);
            let (ctors, loose) = crate::gen::types::merge(&[&t, &u]);
            let mut inh = t.inhabitants.clone();
            inh.extend(u.inhabitants.clone());
            let (ka, kb) = match g.c.pick(3) {
                0 => (key.clone(), format!("\"{key}\"")),
                1 => (format!("\"{key}\""), key.clone()),
                _ => (format!("[\"{key}\"]"), key.clone()),
            };
            g.labels.push("same-prop-spelled-differently-in-union-members".into());
            second_branch = Some(format!("{{ {kb}: {} }}", u.text));
            let text = format!("{} | {}", t.text, u.text);
            members.push(format!("{ka}: {}", t.text));
            t = RtType { text, ctors, loose, inhabitants: inh, depth: t.depth.max(u.depth) + 1 };
            max_depth = max_depth.max(t.depth);
            let view = |v: &Vec<String>, lit_as: &str| -> Vec<String> {
                let mut out: Vec<String> = vec![];
                for c in v {
                    let c = if c == "BigInt#lit" { lit_as.to_string() } else { c.clone() };
                    if !out.contains(&c) {
                        out.push(c);
                    }
                }
                out
            };
            let mk = |lit_as: &str| -> Value {
                json!({
                    "ctors": t.ctors.as_ref().map(|c| view(c, lit_as)),
                    "loose": t.loose.as_ref().map(|(a, b)| json!({"must": view(a, lit_as), "may": view(b, lit_as)})),
                })
            };
            let normal = mk("BigInt");
            let d18 = mk("Number");
            expected.push(json!({"key": key, "ctors": normal["ctors"], "loose": normal["loose"], "type": t.text, "d18": d18}));
            inhabitants.insert(key, Value::Array(t.inhabitants.clone()));
            continue;
        }
        match g.c.weighted(&[12, 1, 1, 1]) {
            1 => {
                // no annotation: implicitly `any`, nothing can be checked
                g.labels.push("member=unannotated".into());
                t = RtType { text: String::new(), ctors: None, loose: None, inhabitants: t.inhabitants.clone(), depth: t.depth };
                members.push(format!("{key}{}", if optional { "?" } else { "" }));
            }
            2 => {
                g.labels.push("member=getter".into());
                members.push(format!("get {key}(): {}", t.text));
            }
            3 => {
                g.labels.push("member=method".into());
                t = RtType {
                    text: "(method)".into(),
                    ctors: Some(vec!["Function".into()]),
                    loose: None,
                    inhabitants: vec![json!({"k":"fn","id":"inh","ret":{"k":"undef"}})],
                    depth: t.depth,
                };
                members.push(format!("{key}{}(a: number): void", if optional { "?" } else { "" }));
            }
            _ => members.push(format!("{key}{}: {}", if optional { "?" } else { "" }, t.text)),
        }
        max_depth = max_depth.max(t.depth);
        // "BigInt#lit" marks constructors contributed by bigint *literal* types (D18's shape)
        let view = |v: &Vec<String>, lit_as: &str| -> Vec<String> {
            let mut out: Vec<String> = vec![];
            for c in v {
                let c = if c == "BigInt#lit" { lit_as.to_string() } else { c.clone() };
                if !out.contains(&c) {
                    out.push(c);
                }
            }
            out
        };
        let mk = |lit_as: &str| -> Value {
            json!({
                "ctors": t.ctors.as_ref().map(|c| view(c, lit_as)),
                "loose": t.loose.as_ref().map(|(a, b)| json!({"must": view(a, lit_as), "may": view(b, lit_as)})),
            })
        };
        let normal = mk("BigInt");
        let d18 = mk("Number");
        expected.push(json!({"key": key, "ctors": normal["ctors"], "loose": normal["loose"], "type": t.text,
            "d18": d18}));
        inhabitants.insert(key, Value::Array(t.inhabitants.clone()));
    }
    let decls = g.decls.join("\n");
    let props_type = match &second_branch {
        Some(b) => format!("{{ {} }} | {b}", members.join("; ")),
        None => format!("{{ {} }}", members.join("; ")),
    };
    let src = format!(
        "import {{ defineComponent }} from \"vue\";\n{decls}\nexport const Comp = defineComponent((props: {props_type}) => () => null);\n"
    );
    let mut case = Case::new(src, "tsx", Some(RT.into()));
    case.labels = g.labels.clone();
    case.extra = json!({"expected": expected, "inhabitants": inhabitants});
    case.label(format!("depth={}", max_depth.min(5)));
    case.nontrivial = max_depth >= 2;
    case
}

fn norm_observed(e: &Value) -> Option<Vec<String>> {
    // None = no check
    let t = &e["type"];
    if t.get("$").is_some() {
        return None; // undefined
    }
    let list: Vec<String> = t
        .as_array()
        .map(|a| {
            a.iter()
                .map(|x| if x.is_null() { "null".to_string() } else { x.as_str().unwrap_or("?").to_string() })
                .collect()
        })
        .unwrap_or_default();
    let is_array = e["type_is_array"].as_bool().unwrap_or(false);
    if !is_array && list == vec!["null".to_string()] {
        return None; // bare null = no check
    }
    Some(list)
}

impl Property for C17 {
    fn id(&self) -> &'static str {
        "C17"
    }
    fn rule(&self) -> String {
        "1-3 props whose declared types are expressions of depth <=4 built from the atom table (string/number/boolean/object/bigint/symbol/null/any/unknown keywords; string, number, boolean, bigint, template literal types; function and constructor types; arrays, tuples; type literals with and without call signatures, {}; Array<T>, Function, Object, Date, Map, Set, WeakMap, WeakSet, Promise, RegExp, Error) by union, alias indirection (1-2 hops), parentheses, optional members, members written as getter / method / without annotation, the keywords undefined / void and callable object types with extra members (bounds only), optional tuple elements, index signatures, array / tuple indexing ([number], [0]), property indexing through interfaces and aliases ([\"k\"], [(\"k\")], [\"a\"|\"b\"], [string], nested [\"x\"][\"k\"], method members; a member inherited through extends with bounds only), utility wrappers (Partial, Required, Readonly, Record, Pick, Omit, InstanceType, Uppercase, Lowercase, Capitalize, Parameters, ConstructorParameters, NonNullable, Exclude, Extract). Each generated type carries its expected constructor set (any/unknown absorbing -> no check) and sample inhabitants. Oracle: (a) the normalised emitted `type` (scalar == one-element list; bare null / absent == no check) equals the expected set (for Exclude / Extract: contains the constructors of the surviving inhabitants and stays within the union of the parts), with Boolean and String in declaration order; (b) Vue's runtime type assertion (mock, from Vue's source) accepts every generated inhabitant against the emitted type. non-trivial = composition depth >=2; distinct by hash(source)".into()
    }
    fn assumptions(&self) -> Vec<String> {
        vec![
            "constructs outside the statement's grammar (keyof, typeof on values other than built-in classes, conditional, mapped, intersections as prop types) are not generated; wrapper interfaces (String ...), readonly arrays, inherited call signatures and Array<T>[\"length\"] are generated with bounds + the inhabitant test".into(),
            "inhabitants are built alongside the type by the generator".into(),
        ]
    }
    fn max_bytes(&self) -> usize {
        300
    }
    fn cases(&self, tier: Tier) -> u32 {
        match tier {
            Tier::Quick => 20_000,
            Tier::Thorough => 250_000,
        }
    }
    fn uses_node(&self) -> bool {
        true
    }
    fn generate(&self, c: &mut Choices) -> Case {
        gen_c17(c)
    }
    fn required_labels(&self) -> Vec<&'static str> {
        vec![
            "union", "alias", "parenthesised", "array-index", "property-index", "utility", "NonNullable",
            "Exclude/Extract", "atom=any/unknown", "atom={}", "atom=bigint-literal",
        ]
    }
    fn check(&self, case: &Case, ctx: &mut Ctx) -> Verdict {
        let v = self.check_with(case, ctx, false);
        if let Verdict::Violation { .. } = &v {
            // D18 (known): bigint literal types are mapped to Number
            if ctx.findings.known("D18", "C17") && case.labels.iter().any(|l| l == "atom=bigint-literal") {
                if let Verdict::Pass = self.check_with(case, ctx, true) {
                    return Verdict::Known("D18".into());
                }
            }
        }
        v
    }
}

impl C17 {
    fn check_with(&self, case: &Case, ctx: &mut Ctx, lens_d18: bool) -> Verdict {
        let (diags, main) = match eval_define(case, ctx, json!({"inhabitants": case.extra["inhabitants"]})) {
            Ok(x) => x,
            Err(v) => return v,
        };
        if !diags.is_empty() {
            return Verdict::Violation {
                kind: "unexpected-diagnostic".into(),
                detail: json!({"diags": diags, "output": main["output"]}),
            };
        }
        if !main["error"].is_null() {
            return Verdict::Violation {
                kind: "evaluation-error".into(),
                detail: json!({"error": main["error"], "output": main["output"]}),
            };
        }
        let props = &main["calls"][0]["props"];
        for e in case.extra["expected"].as_array().cloned().unwrap_or_default() {
            let mut e = e;
            if lens_d18 {
                let d = e["d18"].clone();
                e["ctors"] = d["ctors"].clone();
                e["loose"] = d["loose"].clone();
            }
            let key = e["key"].as_str().unwrap_or("");
            let obs = &props[key];
            if obs.is_null() {
                return Verdict::Violation {
                    kind: "prop-missing".into(),
                    detail: json!({"key": key, "output": main["output"]}),
                };
            }
            let observed = norm_observed(obs);
            let expected: Option<Vec<String>> = e["ctors"].as_array().map(|a| {
                a.iter().map(|s| s.as_str().unwrap_or("").to_string()).collect()
            });
            let fail = |why: &str| Verdict::Violation {
                kind: why.to_string(),
                detail: json!({"key": key, "declared": e["type"], "expected": e["ctors"], "loose": e["loose"],
                    "observed_type": obs["type"], "accepts": obs["accepts"], "output": main["output"]}),
            };
            match (&expected, &observed) {
                (None, None) => {}
                (None, Some(_)) => return fail("any-or-unknown-type-is-checked"),
                (Some(exp), None) => {
                    // a bare `null` (no check) is only right when the declared type is exactly
                    // `null` (or, for Exclude / Extract, when `null` is within the bounds)
                    let within = e["loose"]["may"]
                        .as_array()
                        .map(|m| m.iter().any(|x| x == "null" || x == "*nocheck"))
                        .unwrap_or(false);
                    if exp != &vec!["null".to_string()] && !within {
                        return fail("typed-prop-has-no-check");
                    }
                }
                (Some(exp), Some(obs_list)) => {
                    if let Some(loose) = e["loose"].as_object() {
                        let must: Vec<&str> = loose["must"].as_array().unwrap().iter().filter_map(|s| s.as_str()).collect();
                        let may: Vec<&str> = loose["may"].as_array().unwrap().iter().filter_map(|s| s.as_str()).collect();
                        if !must.iter().all(|m| obs_list.iter().any(|o| o == m))
                            || !obs_list.iter().all(|o| may.contains(&o.as_str()))
                        {
                            return fail("runtime-type-outside-bounds");
                        }
                    } else {
                        let mut a = exp.clone();
                        a.sort();
                        a.dedup();
                        let mut b = obs_list.clone();
                        b.sort();
                        b.dedup();
                        if a != b || obs_list.len() != b.len() {
                            return fail("runtime-type-differs");
                        }
                        // Boolean and String in declaration order
                        let pos = |l: &Vec<String>, n: &str| l.iter().position(|x| x == n);
                        if let (Some(eb), Some(es), Some(ob), Some(os)) =
                            (pos(exp, "Boolean"), pos(exp, "String"), pos(obs_list, "Boolean"), pos(obs_list, "String"))
                        {
                            if (eb < es) != (ob < os) {
                                return fail("boolean-string-order-changed");
                            }
                        }
                    }
                }
            }
            // (b) inhabitants accepted
            if let Some(acc) = obs["accepts"].as_array() {
                let specs = case.extra["inhabitants"][key].as_array().cloned().unwrap_or_default();
                for (i, a) in acc.iter().enumerate() {
                    if a.as_bool() != Some(true) {
                        // under the D18 lens only the bigint-literal inhabitant may be rejected
                        if lens_d18 && specs.get(i).map(|s| s["lit"] == true).unwrap_or(false) {
                            continue;
                        }
                        return fail("inhabitant-rejected-by-runtime-validation");
                    }
                }
            }
        }
        Verdict::Pass
    }
}

// --------------------------------------------------------------------------------------------

pub struct C19;

const EVENT_NAMES: &[&str] = &["change", "update:modelValue", "foo-bar", "a", "b", "click", "x:y-z", "done"];

struct EmitGen<'a, 'b, 'c> {
    g: &'c mut TypeGen<'a, 'b>,
}

impl EmitGen<'_, '_, '_> {
    fn lit_union(&mut self, names: &[String]) -> String {
        let lits: Vec<String> = names.iter().map(|n| format!("\"{n}\"")).collect();
        let u = lits.join(" | ");
        match self.g.c.pick(4) {
            0 => u,
            3 => {
                self.g.label("parenthesised-literal-union");
                format!("({u})")
            }
            1 => {
                let hops = self.g.c.range(1, 2);
                let mut t = u;
                for _ in 0..hops {
                    let n = self.g.fresh("E");
                    self.g.decls.push(crate::gen::types::Decl {
                        text: format!("type {n} = {t};"),
                        after: self.g.allow_after && self.g.c.chance(1, 4),
                    });
                    t = n;
                }
                self.g.label("literal-union-alias");
                t
            }
            _ => {
                if lits.len() >= 2 {
                    let n = self.g.fresh("E");
                    self.g.decls.push(crate::gen::types::Decl {
                        text: format!("type {n} = {};", lits[1..].join(" | ")),
                        after: false,
                    });
                    self.g.label("literal-union-alias");
                    format!("{} | {n}", lits[0])
                } else {
                    u
                }
            }
        }
    }

    fn call_sigs(&mut self, names: &[String]) -> Vec<String> {
        // 1-2 signatures partitioning the names (duplicates across signatures allowed)
        if names.len() >= 2 && self.g.c.bool() {
            let cut = self.g.c.range(1, names.len() - 1);
            let a = self.lit_union(&names[..cut]);
            let mut second: Vec<String> = names[cut..].to_vec();
            if self.g.c.chance(1, 3) {
                second.push(names[0].clone()); // duplicate across signatures
                self.g.label("duplicate-across-signatures");
            }
            let b = self.lit_union(&second);
            vec![format!("(e: {a}): void"), format!("(e: {b}, payload: number): void")]
        } else {
            // a TS `this` pseudo-parameter is not the first parameter
            let this = if self.g.c.chance(1, 5) {
                self.g.label("this-pseudo-parameter-in-event-signature");
                "this: void, "
            } else {
                ""
            };
            vec![format!("({this}e: {}, ...args: any[]): void", self.lit_union(names))]
        }
    }

    fn named(&mut self, names: &[String], depth: usize) -> String {
        let name = self.g.fresh("EI");
        let mut rest = names.to_vec();
        let mut ext = String::new();
        if depth < 3 && rest.len() >= 2 && self.g.c.bool() {
            let take = self.g.c.range(1, rest.len() - 1);
            let part: Vec<String> = rest.drain(..take).collect();
            let parent = self.named(&part, depth + 1);
            ext = format!(" extends {parent}");
            self.g.label("emits-extends");
        }
        let sigs = self.call_sigs(&rest);
        let after = self.g.allow_after && self.g.c.chance(1, 4);
        if after {
            self.g.label("declaration-after-use");
        }
        let export = if self.g.c.chance(1, 5) { "export " } else { "" };
        if sigs.len() >= 2 && self.g.c.chance(1, 3) {
            // declaration merging: the `extends` clause may sit on the later declaration
            self.g.label("emits-interface-merged");
            let (e1, e2) = if self.g.c.bool() { (ext.as_str(), "") } else { ("", ext.as_str()) };
            self.g.decls.push(crate::gen::types::Decl {
                text: format!("{export}interface {name}{e1} {{ {} }}", sigs[..1].join("; ")),
                after,
            });
            self.g.decls.push(crate::gen::types::Decl {
                text: format!("{export}interface {name}{e2} {{ {} }}", sigs[1..].join("; ")),
                after,
            });
            self.g.label("emits-interface");
            return name;
        }
        self.g.decls.push(crate::gen::types::Decl {
            text: format!("{export}interface {name}{ext} {{ {} }}", sigs.join("; ")),
            after,
        });
        self.g.label("emits-interface");
        name
    }

    fn enc(&mut self, names: &[String], depth: usize) -> String {
        let w = self.g.c.weighted(&[
            4,
            if names.len() >= 2 { 3 } else { 0 },
            3,
            3,
            3,
            if names.len() >= 2 && depth < 3 { 2 } else { 0 },
            if depth < 3 { 2 } else { 0 },
        ]);
        match w {
            0 => {
                self.g.label("emits-function-type");
                let this = if self.g.c.chance(1, 5) {
                    self.g.label("this-pseudo-parameter-in-event-signature");
                    "this: void, "
                } else {
                    ""
                };
                format!("({this}e: {}, ...args: any[]) => void", self.lit_union(names))
            }
            1 => {
                let cut = self.g.c.range(1, names.len() - 1);
                let a = self.lit_union(&names[..cut]);
                let b = self.lit_union(&names[cut..]);
                self.g.label("emits-union-of-functions");
                format!("((e: {a}) => void) | ((e: {b}, v: string) => void)")
            }
            2 => {
                self.g.label("emits-call-signature-literal");
                format!("{{ {} }}", self.call_sigs(names).join("; "))
            }
            3 => self.named(names, depth),
            4 => {
                self.g.label("emits-property-syntax");
                let ms: Vec<String> = names
                    .iter()
                    .enumerate()
                    .map(|(i, n)| {
                        let k = if n.chars().all(|c| c.is_ascii_alphanumeric()) && i % 2 == 0 {
                            n.clone()
                        } else {
                            format!("\"{n}\"")
                        };
                        if i % 3 == 2 {
                            format!("{k}(x: number): void")
                        } else {
                            format!("{k}: [x: number]")
                        }
                    })
                    .collect();
                let mut ms = ms;
                if self.g.c.chance(1, 6) {
                    // `[evk]` names the event by the value of `evk`, not "evk": resolved or reported
                    self.g.label("emits-computed-identifier-key");
                    if !self.g.decls.iter().any(|d| d.text.starts_with("const evk")) {
                        self.g.decls.push(crate::gen::types::Decl {
                            text: "const evk = \"dynEv\";".into(),
                            after: false,
                        });
                    }
                    ms.push("[evk]: [x: number]".to_string());
                }
                format!("{{ {} }}", ms.join("; "))
            }
            5 => {
                let cut = self.g.c.range(1, names.len() - 1);
                let a = self.enc(&names[..cut], depth + 1);
                let b = self.enc(&names[cut..], depth + 1);
                self.g.label("emits-intersection");
                format!("({a}) & ({b})")
            }
            _ => {
                let inner = self.enc(names, depth + 1);
                let n = self.g.fresh("EA");
                let after = self.g.allow_after && self.g.c.chance(1, 4);
                if after {
                    self.g.label("declaration-after-use");
                }
                self.g.decls.push(crate::gen::types::Decl {
                    text: format!("type {n} = {inner};"),
                    after,
                });
                self.g.label("emits-alias");
                n
            }
        }
    }
}

pub fn gen_c19(c: &mut Choices) -> Case {
    let mut g = TypeGen::new(c);
    let negative = g.c.chance(1, 8);
    let n = g.c.range(1, 5);
    let mut names: Vec<String> = vec![];
    for _ in 0..n {
        let e = g.c.choose(EVENT_NAMES).to_string();
        if !names.contains(&e) {
            names.push(e);
        }
    }
    let second;
    if negative {
        second = g
            .c
            .choose(&["", ", ctx", ", ctx: { emit: (e: \"a\") => void }", ", { emit }", ", ctx: Context<(e: \"a\") => void>"])
            .to_string();
    } else {
        let enc = {
            let mut eg = EmitGen { g: &mut g };
            eg.enc(&names, 0)
        };
        // Vue declares `SetupContext<E, S extends SlotsType = {}>`: the slots argument may be given
        let slots = match g.c.pick(5) {
            0 => {
                g.label("setup-context-with-slots-argument");
                ", {}"
            }
            1 => {
                g.label("setup-context-with-slots-argument");
                ", SlotsType<{ default: () => any }>"
            }
            _ => "",
        };
        second = match g.c.pick(4) {
            0 => format!(", ctx: SetupContext<{enc}{slots}>"),
            1 => format!(", {{ emit }}: SetupContext<{enc}{slots}>"),
            // a defaulted second parameter is annotated all the same
            3 => {
                g.label("second-parameter-with-default");
                format!(", ctx: SetupContext<{enc}{slots}> = {{}}")
            }
            _ => format!(", {{ emit, attrs }}: SetupContext<{enc}{slots}>"),
        };
    }
    let local = !negative && g.c.chance(1, 6);
    // user-written options next to the derived emits (other keys must not matter)
    let options = match g.c.pick(5) {
        0 => {
            g.label("user-options-with-props");
            ", { props: [\"a\"] }"
        }
        1 => {
            g.label("user-options-with-props");
            ", { \"props\": { a: String }, inheritAttrs: false }"
        }
        2 => ", { inheritAttrs: false }",
        _ => "",
    };
    let src = assemble_dc_opts(&mut g, "{ a?: string }", &second, local, "", options);
    let mut case = Case::new(src, "tsx", Some(RT.into()));
    case.labels = g.labels.clone();
    if negative {
        case.label("negative-no-SetupContext");
    }
    case.extra = json!({"names": names, "negative": negative});
    case.nontrivial = negative
        || case.labels.iter().filter(|l| l.starts_with("emits-")).count() >= 2
        || case.labels.iter().any(|l| l == "literal-union-alias" || l == "declaration-after-use");
    case
}

impl Property for C19 {
    fn id(&self) -> &'static str {
        "C19"
    }
    fn rule(&self) -> String {
        "event-name sets (1-5 names incl. ':' and '-') x encodings of SetupContext<E> (optionally with the slots argument, SetupContext<E, S>): function type, union of function types, type literal and interface with 1-2 call signatures (names duplicated across signatures), extends chains, property / method syntax, first-parameter types that are literal unions, aliases of literal unions (1-2 hops) and nested unions, intersections, aliases; exported / local declarations, before / after the call; arrow / function / destructured / defaulted setup; second parameter as identifier or destructuring pattern. Negatives: no second parameter, no annotation, an annotation that is not SetupContext<...>. Oracle: the mock defineComponent records its options: new Set(options.emits) == declared names (no extras, none missing); negatives: no emits key. non-trivial = >=2 encodings combined, an alias hop, a declaration after use, or a negative; distinct by hash(source)".into()
    }
    fn assumptions(&self) -> Vec<String> {
        vec!["TS eraser (harness) strips types before evaluation".into()]
    }
    fn max_bytes(&self) -> usize {
        300
    }
    fn cases(&self, tier: Tier) -> u32 {
        match tier {
            Tier::Quick => 15_000,
            Tier::Thorough => 150_000,
        }
    }
    fn uses_node(&self) -> bool {
        true
    }
    fn generate(&self, c: &mut Choices) -> Case {
        gen_c19(c)
    }
    fn check(&self, case: &Case, ctx: &mut Ctx) -> Verdict {
        let (diags, main) = match eval_define(case, ctx, json!({})) {
            Ok(x) => x,
            Err(v) => return v,
        };
        let computed_key = case.labels.iter().any(|l| l == "emits-computed-identifier-key");
        if computed_key && !diags.is_empty() {
            // an event named by the value of an identifier: reporting it is fine
            return Verdict::Pass;
        }
        if !diags.is_empty() {
            return Verdict::Violation {
                kind: "unexpected-diagnostic".into(),
                detail: json!({"diags": diags, "output": main["output"]}),
            };
        }
        if !main["error"].is_null() {
            return Verdict::Violation {
                kind: "evaluation-error".into(),
                detail: json!({"error": main["error"], "output": main["output"]}),
            };
        }
        let call = &main["calls"][0];
        let keys: Vec<String> = call["keys"]
            .as_array()
            .map(|a| a.iter().filter_map(|k| k.as_str().map(|s| s.to_string())).collect())
            .unwrap_or_default();
        if case.extra["negative"].as_bool() == Some(true) {
            return if keys.iter().any(|k| k == "emits") {
                Verdict::Violation {
                    kind: "emits-added-without-SetupContext-annotation".into(),
                    detail: json!({"options": call, "output": main["output"]}),
                }
            } else {
                Verdict::Pass
            };
        }
        let mut want: Vec<String> = case.extra["names"]
            .as_array()
            .map(|a| a.iter().filter_map(|k| k.as_str().map(|s| s.to_string())).collect())
            .unwrap_or_default();
        if computed_key {
            // (not reported: then the event is the value of `evk`)
            want.push("dynEv".into());
        }
        want.sort();
        let mut got: Vec<String> = call["emits"]
            .as_array()
            .map(|a| a.iter().filter_map(|k| k.as_str().map(|s| s.to_string())).collect())
            .unwrap_or_default();
        got.sort();
        got.dedup();
        if want != got || !call["emits"].is_array() {
            return Verdict::Violation {
                kind: "emits-differ-from-declared".into(),
                detail: json!({"expected": want, "observed": call["emits"], "output": main["output"]}),
            };
        }
        Verdict::Pass
    }
    fn required_labels(&self) -> Vec<&'static str> {
        vec![
            "emits-function-type", "emits-union-of-functions", "emits-call-signature-literal",
            "emits-interface", "emits-extends", "emits-property-syntax", "emits-intersection",
            "emits-alias", "literal-union-alias", "declaration-after-use", "negative-no-SetupContext",
            "duplicate-across-signatures",
            "user-options-with-props",
        ]
    }
}
