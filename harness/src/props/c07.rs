//! C07 - output is plain valid ECMAScript/TypeScript, or an error was reported.

use serde_json::json;

use crate::choices::Choices;
use crate::driver::{count_empty_idents, jsx_census, parses_plain, with_transform, Lang, Rejected};
use crate::gen::grammar::{Knobs, G};
use crate::gen::opts::any_opts;
use crate::runner::{Case, Ctx, Property, Tier, Verdict};

pub struct C07;

pub fn gen_case(c: &mut Choices, adversarial: bool) -> Case {
    let tsx = c.chance(1, 3);
    let mut opts = any_opts(c, true, tsx);
    let bad_pragma = crate::gen::opts::maybe_invalid_pragma(c, &mut opts);
    let knobs = Knobs {
        tsx,
        unusual: true,
        adversarial,
        // reach the resolveType paths (derived props copy parts of the setup function)
        force_define_component: tsx && opts.resolve_type && c.chance(2, 3),
        ..Knobs::default()
    };
    let mut g = G::new(c, knobs);
    let src = g.module();
    let f = g.f.clone();
    let mut case = Case::new(src, if tsx { "tsx" } else { "jsx" }, Some(opts.json()));
    for u in &f.unusual {
        case.label(format!("unusual={u}"));
    }
    for u in &f.adversarial {
        case.label(format!("adversarial={u}"));
    }
    for u in &f.contexts {
        case.label(format!("ctx={u}"));
    }
    case.label(format!("lang={}", case.lang));
    if bad_pragma {
        case.label("option=invalid-pragma-name");
    }
    if f.jsx > 0 {
        case.label("has-jsx");
    }
    case.nontrivial = !f.unusual.is_empty() || (f.jsx >= 2 && f.contexts.len() >= 2);
    case
}

pub fn judge(case: &Case, findings: &crate::runner::Findings) -> Verdict {
    judge_inner(case, findings, false).0
}

/// second stage: a different engine (node's parser, which reports the early errors swc's parser
/// does not: misplaced `super` / `new.target`, ...) must accept the output whenever it accepts
/// the input with its JSX expressions flattened into array literals
fn node_stage(case: &Case, ctx: &mut Ctx, js: (String, String)) -> Verdict {
    let (inp, out) = js;
    let req = json!({"mode": "syntax", "modules": [{"name": "in", "code": inp}, {"name": "out", "code": out}]});
    let reply = match ctx.node().and_then(|n| n.request(req)) {
        Ok(r) => r,
        Err(e) => {
            ctx.node = None;
            return Verdict::Infra(e);
        }
    };
    let _ = case;
    if reply["results"]["in"]["ok"].as_bool() != Some(true) {
        return Verdict::Discard("input-has-early-error-or-unerasable-ts(node)".into());
    }
    if reply["results"]["out"]["ok"].as_bool() == Some(true) {
        return Verdict::Pass;
    }
    Verdict::Violation {
        kind: "output-has-early-error".into(),
        detail: json!({"node_error": reply["results"]["out"]["error"], "printed_js": out, "input_js": inp}),
    }
}

/// Both stages, plus a domain guard for the first one: swc's TSX parser accepts a few malformed
/// inputs silently (seen: `<fo/>//\n/'abc` - an unterminated string after a JSX element - is
/// accepted, and so is its re-print), which then "do not re-parse" once the transform has moved
/// the pieces. If node's parser rejects the input with its JSX flattened, the input was not a
/// module in the first place.
pub fn full_check(case: &Case, ctx: &mut Ctx) -> Verdict {
    let (v, js) = judge_inner(case, &ctx.findings, true);
    match (v, js) {
        (Verdict::Pass, Some(js)) => node_stage(case, ctx, js),
        (Verdict::Violation { kind, detail }, _) if kind == "output-does-not-reparse" => {
            let lang = Lang::from_str(&case.lang);
            let js = with_transform(&case.source, lang, case.options.as_deref(), |t| t.js_for_syntax_check())
                .ok()
                .flatten();
            if let Some((inp, _)) = js {
                let req = json!({"mode": "syntax", "modules": [{"name": "in", "code": inp}]});
                match ctx.node().and_then(|n| n.request(req)) {
                    Ok(reply) => {
                        if reply["results"]["in"]["ok"].as_bool() == Some(false) {
                            return Verdict::Discard("input-rejected-by-second-parser".into());
                        }
                    }
                    Err(e) => {
                        ctx.node = None;
                        return Verdict::Infra(e);
                    }
                }
            }
            Verdict::Violation { kind, detail }
        }
        (v, _) => v,
    }
}

fn judge_inner(case: &Case, findings: &crate::runner::Findings, want_js: bool) -> (Verdict, Option<(String, String)>) {
    let lang = Lang::from_str(&case.lang);
    let mut js = None;
    let r = with_transform(&case.source, lang, case.options.as_deref(), |t| {
        if t.panicked.is_some() {
            return Verdict::Discard("visitor-panicked(C08)".into());
        }
        if !t.diags.is_empty() {
            return Verdict::Discard("diagnostic-exempt".into());
        }
        let raw = t.raw.as_ref().unwrap();
        let census = jsx_census(raw);
        if census.total > 0 {
            return Verdict::Violation {
                kind: "jsx-left-in-output".into(),
                detail: json!({"kinds": census.kinds, "count": census.total,
                    "printed": t.print_raw(raw).unwrap_or_else(|e| format!("<print failed: {e}>"))}),
            };
        }
        let empties = count_empty_idents(raw);
        if empties > 0 {
            return Verdict::Violation {
                kind: "empty-identifier-placeholder".into(),
                detail: json!({"count": empties,
                    "printed": t.print_raw(raw).unwrap_or_else(|e| format!("<print failed: {e}>"))}),
            };
        }
        let code = match t.print_final(raw) {
            Ok(c) => c,
            Err(e) => {
                return Verdict::Violation {
                    kind: "output-unprintable".into(),
                    detail: json!({"error": e}),
                }
            }
        };
        match parses_plain(&code, lang) {
            Ok(()) => {
                if want_js {
                    js = t.js_for_syntax_check();
                }
                Verdict::Pass
            }
            Err(e) => {
                // guard against blaming swc's fixer: if the visitor's output printed *without*
                // hygiene / fixer (all user parentheses still in place) re-parses, the fixer
                // broke a valid AST (seen: `(a = ((1, 1) as any)) => a` loses its parentheses)
                if let Ok(raw_code) = t.print_raw(raw) {
                    if parses_plain(&raw_code, lang).is_ok() {
                        return Verdict::Discard("fixer-roundtrip-limitation".into());
                    }
                }
                // guard against blaming codegen: the *input* must survive print + re-parse
                let inp = t.print_final(&t.input);
                match inp {
                    Ok(ic) => {
                        if crate::driver::parses_jsx(&ic, lang).is_err() {
                            return Verdict::Discard("codegen-roundtrip-limitation".into());
                        }
                    }
                    Err(_) => return Verdict::Discard("codegen-roundtrip-limitation".into()),
                }
                Verdict::Violation {
                    kind: "output-does-not-reparse".into(),
                    detail: json!({"parse_error": e, "printed": code}),
                }
            }
        }
    });
    let _ = findings;
    let v = match r {
        Ok(v) => v,
        Err(Rejected::Options(e)) => Verdict::Infra(format!("generated options rejected: {e}")),
        Err(Rejected::Parse(_)) => Verdict::Discard("parser-rejected".into()),
        Err(Rejected::ParserPanic(_)) => Verdict::Discard("parser-panicked".into()),
    };
    (v, js)
}

impl Property for C07 {
    fn id(&self) -> &'static str {
        "C07"
    }
    fn rule(&self) -> String {
        "modules decoded from proptest choice bytes by gen::grammar (statements, classes, functions, TS declarations, JSX incl. the legal-but-unusual forms) under random option sets; judged cases = parser-accepted, no visitor panic; passing requires diagnostics>=1 OR (JSX census of raw output AST = 0 AND no empty-symbol identifier AND printed output re-parses with JSX disabled AND - second engine - node's parser accepts the TS-erased output whenever it accepts the input with its JSX flattened into array literals). non-trivial = contains >=1 unusual form, or >=2 JSX expressions in >=2 syntactic contexts; distinct by hash(source, options)".into()
    }
    fn assumptions(&self) -> Vec<String> {
        vec![
            "swc parser/codegen are correct; inputs whose own print+reparse fails are discarded".into(),
            "node's parser decides early errors; a case whose JSX-flattened, TS-erased input node rejects is discarded (own early error, or TS syntax the eraser does not cover)".into(),
            "driver reproduces the plugin entry: serde_json options, resolver, visitor under HANDLER, hygiene, fixer".into(),
        ]
    }
    fn max_bytes(&self) -> usize {
        600
    }
    fn cases(&self, tier: Tier) -> u32 {
        match tier {
            Tier::Quick => 37_500,
            Tier::Thorough => 500_000,
        }
    }
    fn generate(&self, c: &mut Choices) -> Case {
        gen_case(c, false)
    }
    fn check(&self, case: &Case, ctx: &mut Ctx) -> Verdict {
        full_check(case, ctx)
    }
    fn uses_node(&self) -> bool {
        true
    }
    fn builtin_cases(&self) -> Vec<Case> {
        let opt = Some("{\"optimize\":true}".to_string());
        [
            "export const a = <ns:tag />;",
            "export const a = <div a=<b /> />;",
            "export const a = <div a=<></> />;",
            "export const a = <div v-foo={[x, \"arg\", [\"a-b\", \"1x\"]]} />;",
            "export const a = <input v-model={[]} />;",
            "export const a = <input v-model={[...q]} />;",
            "export const a = <Foo.Bar />;",
            "class K { m() { return <this.C />; } }",
            "/** @jsxImportSource vue */\nexport const a = <div />;",
            "/* @jsx h foo */\nexport const a = <div />;",
            "/* @jsx */\nexport const a = <div />;",
            "export const a = <div v-foo />;",
            "export const a = <C v-model={[m, [\"a-b\"]]} />;",
            "export const a = <div v-foo={[]} />;",
            "export const a = <input v-model />;",
            "export const a = <C v-models={[[m, \"a-b\", [\"1x\"]]]} />;",
            // D56 / D57
            "export async function f() { return <Foo>{await g()}</Foo>; }",
            "export function* h() { yield <Foo>{yield 1}</Foo>; }",
            "export const p = <class.foo />;",
            "/* @jsx import */\nexport const q = <div />;",
            "/* @jsx class */\nexport const q = <div />;",
        ]
        .iter()
        .map(|s| {
            let mut c = Case::new(s.to_string(), "jsx", opt.clone());
            c.nontrivial = true;
            c.label("builtin");
            c
        })
        .collect()
    }
    fn extra_stage(
        &self,
        ctx: &mut Ctx,
        stats: &mut crate::runner::Stats,
    ) -> Result<Option<crate::runner::Violation>, String> {
        if ctx.tier != Tier::Thorough {
            return Ok(None);
        }
        crate::fuzzstage::fuzz_stage("C07", ctx, stats, 180, true)
    }
    fn required_labels(&self) -> Vec<&'static str> {
        vec![
            "unusual=jsx-attr-value",
            "unusual=namespaced-tag",
            "unusual=this-member-tag",
            "unusual=directive-valueless",
            "unusual=directive-odd-array",
            "unusual=directive-string",
            "unusual=pragma-odd",
        ]
    }
}
