//! C18 - parameter defaults become runtime prop defaults without changing them.

use serde_json::{json, Value};

use crate::choices::Choices;
use crate::props::c16::eval_define;
use crate::props::semantic::node_eval;
use crate::runner::{Case, Ctx, Property, Tier, Verdict};

pub struct C18;

const RT: &str = "{\"resolveType\":true}";

struct P {
    key: &'static str,
    /// how the key is written in the type
    type_key: &'static str,
    ty: &'static str,
    fn_typed: bool,
}

const PROPS: &[P] = &[
    P { key: "alpha", type_key: "alpha", ty: "string", fn_typed: false },
    P { key: "beta", type_key: "beta", ty: "number", fn_typed: false },
    P { key: "gamma", type_key: "\"gamma\"", ty: "object", fn_typed: false },
    P { key: "q-1", type_key: "\"q-1\"", ty: "string[]", fn_typed: false },
    P { key: "sh1", type_key: "sh1", ty: "string | number", fn_typed: false },
    P { key: "fn1", type_key: "fn1", ty: "() => void", fn_typed: true },
    P { key: "fn2", type_key: "\"fn2\"", ty: "Function", fn_typed: true },
    P { key: "7", type_key: "7", ty: "number", fn_typed: false },
    // a second numeric key: defaults must be matched by value, not by kind
    P { key: "8", type_key: "8", ty: "number", fn_typed: false },
    // Function is only one member of the runtime type set: Vue still treats a function default as
    // a factory (`opt.type !== Function`), so the written function must stay wrapped
    P { key: "uf1", type_key: "uf1", ty: "string | (() => string)", fn_typed: false },
    P { key: "uf2", type_key: "uf2", ty: "(() => void) | null", fn_typed: false },
];

fn env() -> Value {
    use crate::gen::jsx::*;
    let e = Env {
        bound: vec![
            ("dflt1".into(), v_str("D1")),
            ("sh1".into(), v_str("SH1")),
            ("fn1".into(), v_fn("env.fn1", v_str("fn1-ret"))),
            ("dfn".into(), v_fn("env.dfn", v_num(9.0))),
            ("k1".into(), v_str("beta")),
            (
                "dobj".into(),
                v_obj(vec![("alpha", v_str("from-dobj")), ("beta", v_num(77.0)), ("extra", v_num(1.0))]),
            ),
        ],
        globals: vec![],
        factories: vec![],
    };
    e.json()
}

pub fn gen_case(c: &mut Choices) -> Case {
    // declared props: a random subset (>=2)
    let mut declared: Vec<&P> = vec![];
    for p in PROPS {
        if c.chance(2, 3) {
            declared.push(p);
        }
    }
    if declared.len() < 2 {
        declared = vec![&PROPS[0], &PROPS[1]];
    }
    let members: Vec<String> = declared
        .iter()
        .map(|p| format!("{}{}: {}", p.type_key, if c.bool() { "?" } else { "" }, p.ty))
        .collect();
    let mut labels: Vec<String> = vec![];
    let mut label = |l: &str, labels: &mut Vec<String>| {
        if !labels.iter().any(|x| x == l) {
            labels.push(l.to_string());
        }
    };
    // default object
    let dynamic = c.weighted(&[7, 1, 1, 1, 1]);
    let mut entries: Vec<String> = vec![]; // source text of the default object's entries
    let mut expected: Vec<String> = vec![]; // reference entries `"key": expr`
    let mut with_default: Vec<&str> = vec![];
    let mut forms = 0usize;
    for p in &declared {
        if !c.chance(2, 3) {
            continue;
        }
        // key spelling in the default object
        let ks = if p.key.chars().all(|ch| ch.is_ascii_alphanumeric()) && !p.key.chars().next().unwrap().is_ascii_digit() {
            match c.pick(3) {
                0 => p.key.to_string(),
                1 => format!("\"{}\"", p.key),
                _ => format!("[\"{}\"]", p.key),
            }
        } else if p.key.chars().all(|ch| ch.is_ascii_digit()) {
            match c.pick(4) {
                0 => p.key.to_string(),
                // the string spelling of a numeric key is the same key
                1 => format!("\"{}\"", p.key),
                2 => format!("[\"{}\"]", p.key),
                _ => format!("[{}]", p.key),
            }
        } else {
            match c.pick(2) {
                0 => format!("\"{}\"", p.key),
                _ => format!("[\"{}\"]", p.key),
            }
        };
        if ks.starts_with('[') {
            label("computed-literal-key", &mut labels);
        }
        if ks.starts_with('"') && !p.type_key.starts_with('"') || (!ks.starts_with('"') && !ks.starts_with('[') && p.type_key.starts_with('"')) {
            label("key-spelling-differs-from-type", &mut labels);
        }
        let key_js = serde_json::to_string(p.key).unwrap();
        if c.chance(1, 8) {
            // the same key written twice: the later entry is the one JavaScript keeps
            entries.push(format!("{ks}: \"written-first\""));
            label("duplicate-key-last-wins", &mut labels);
        }
        if p.fn_typed {
            // Function-typed prop: the written function itself
            let f = c.choose(&["() => 1", "function () { return 2; }", "dfn", "fn1"]);
            if c.chance(1, 5) {
                // ... also when a getter produces it
                entries.push(format!("get {ks}() {{ return {f}; }}"));
                label("getter-for-function-typed-prop", &mut labels);
            } else if f == "fn1" && p.key == "fn1" && c.bool() && !ks.starts_with('[') && !ks.starts_with('"') {
                entries.push("fn1".to_string()); // shorthand
                label("shorthand", &mut labels);
            } else {
                entries.push(format!("{ks}: {f}"));
            }
            expected.push(format!("{key_js}: vr({f}, true)"));
            label("function-typed-default", &mut labels);
            forms += 1;
            with_default.push(p.key);
            continue;
        }
        let form = c.weighted(&[4, 4, 2, 2, 2, 1, 1]);
        match form {
            0 => {
                let v = c.choose(&["1", "\"s\"", "true", "null", "0", "\"\""]);
                entries.push(format!("{ks}: {v}"));
                expected.push(format!("{key_js}: {v}"));
                label("literal", &mut labels);
            }
            1 => {
                let v = c.choose(&["1 + 1", "[1]", "{ a: 1 }", "dflt1", "-1", "`tpl`", "dfn()", "[dflt1, { b: 2 }]", "undefined"]);
                entries.push(format!("{ks}: {v}"));
                expected.push(format!("{key_js}: ({v})"));
                label("expression", &mut labels);
            }
            2 => {
                let v = c.choose(&["() => 5", "function () { return 6; }", "dfn"]);
                entries.push(format!("{ks}: {v}"));
                // a function written as the default of a non-Function prop *is* the value
                expected.push(format!("{key_js}: ({v})"));
                label("function-valued-default", &mut labels);
            }
            3 => {
                if p.key == "sh1" && !ks.starts_with('[') && !ks.starts_with('"') {
                    entries.push("sh1".to_string());
                    expected.push(format!("{key_js}: sh1"));
                    label("shorthand", &mut labels);
                } else {
                    entries.push(format!("{ks}: dflt1"));
                    expected.push(format!("{key_js}: dflt1"));
                    label("expression", &mut labels);
                }
            }
            4 => {
                if c.chance(1, 4) {
                    // `this` of a getter is the defaults object
                    if c.bool() {
                        entries.push(format!("get {ks}() {{ return [typeof this, dflt1]; }}"));
                    } else {
                        // ... also inside an arrow function, which has no `this` of its own
                        entries.push(format!("get {ks}() {{ return (() => [typeof this, dflt1])(); }}"));
                        label("this-or-super-inside-nested-arrow", &mut labels);
                    }
                    expected.push(format!("{key_js}: [\"object\", dflt1]"));
                    label("getter-using-this", &mut labels);
                } else {
                    entries.push(format!("get {ks}() {{ return [3, dflt1]; }}"));
                    expected.push(format!("{key_js}: [3, dflt1]"));
                }
                label("getter", &mut labels);
            }
            5 => {
                if c.chance(1, 4) {
                    // `super` of an object-literal method is the object's prototype
                    let form = c.pick(3);
                    if form == 0 {
                        entries.push(format!("{ks}() {{ return super.toString === undefined ? 1 : 4; }}"));
                    } else if form == 1 {
                        // ... inside an arrow function, which has no `super` of its own
                        entries.push(format!("{ks}() {{ return (() => (super.toString === undefined ? 1 : 4))(); }}"));
                        label("this-or-super-inside-nested-arrow", &mut labels);
                    } else {
                        // ... in the parameter list as well
                        entries.push(format!("{ks}(v = super.toString === undefined ? 1 : 4) {{ return v; }}"));
                        label("super-in-method-parameters", &mut labels);
                    }
                    label("method-using-super", &mut labels);
                } else {
                    entries.push(format!("{ks}() {{ return 4; }}"));
                }
                expected.push(format!("{key_js}: vr(function () {{ return 4; }}, false)"));
                label("method", &mut labels);
            }
            _ => {
                entries.push(format!("async {ks}() {{ return 8; }}"));
                expected.push(format!("{key_js}: vr(async function () {{ return 8; }}, false)"));
                label("async-method", &mut labels);
            }
        }
        forms += 1;
        with_default.push(p.key);
    }
    if c.chance(1, 3) {
        entries.push("notDeclared: 1".into());
        label("extra-key", &mut labels);
    }
    // dynamic forms
    let fn_types: Vec<String> = declared.iter().filter(|p| p.fn_typed).map(|p| format!("\"{}\"", p.key)).collect();
    let declared_keys: Vec<String> = declared.iter().map(|p| format!("\"{}\"", p.key)).collect();
    let (default_src, expected_src): (String, String) = match dynamic {
        1 => {
            label("dynamic-identifier", &mut labels);
            ("dobj".to_string(), "dyn(dobj)".to_string())
        }
        2 => {
            label("dynamic-spread", &mut labels);
            let obj = format!("{{ {}{}...dobj }}", entries.join(", "), if entries.is_empty() { "" } else { ", " });
            (obj.clone(), format!("dyn({obj})"))
        }
        3 => {
            label("dynamic-computed-key", &mut labels);
            let obj = format!("{{ {}{}[k1]: 2 }}", entries.join(", "), if entries.is_empty() { "" } else { ", " });
            (obj.clone(), format!("dyn({obj})"))
        }
        4 => {
            label("dynamic-computed-expression-key", &mut labels);
            let obj = format!("{{ {}{}[\"al\" + \"pha\"]: 3 }}", entries.join(", "), if entries.is_empty() { "" } else { ", " });
            (obj.clone(), format!("dyn({obj})"))
        }
        _ => {
            let obj = format!("{{ {} }}", entries.join(", "));
            if labels.iter().any(|l| l == "getter-using-this" || l == "method-using-super") {
                // such an object cannot be taken apart: it must reach Vue's mergeDefaults whole
                (obj.clone(), format!("dyn({obj})"))
            } else {
                (obj, format!("{{ {} }}", expected.join(", ")))
            }
        }
    };
    // a props parameter without any default, and a context parameter with a default of its own:
    // that one is not a default of the props
    let (default_part, expected_src) = if c.chance(1, 6) {
        label("no-props-default", &mut labels);
        (String::new(), "{}".to_string())
    } else {
        (format!(" = {default_src}"), expected_src)
    };
    let ctx_part = match c.pick(6) {
        0 | 1 | 2 => String::new(),
        3 => ", ctx".to_string(),
        4 => {
            label("context-parameter-with-default", &mut labels);
            ", ctx = dobj".to_string()
        }
        _ => {
            label("context-parameter-with-default", &mut labels);
            format!(", {{ emit }} = {{ emit() {{}}, {}: 7 }}", serde_json::to_string(declared[0].key).unwrap())
        }
    };
    let src = format!(
        "import {{ defineComponent }} from \"vue\";\nimport {{ dflt1, sh1, fn1, dfn, k1, dobj }} from \"env\";\nexport const Comp = defineComponent((props: {{ {} }}{default_part}{ctx_part}) => () => null);\n",
        members.join("; ")
    );
    let reference = format!(
        "import {{ dflt1, sh1, fn1, dfn, k1, dobj }} from \"env\";\nconst FN = [{}];\nconst DECL = [{}];\nconst vr = (v, fnType) => (typeof v === \"function\" && !fnType ? v({{}}) : v);\nconst dyn = (o) => Object.fromEntries(Object.keys(o).filter((k) => DECL.includes(k)).map((k) => [k, vr(o[k], FN.includes(k))]));\nexport const expected = {expected_src};\n",
        fn_types.join(", "),
        declared_keys.join(", ")
    );
    let mut case = Case::new(src, "tsx", Some(RT.into()));
    case.labels = labels;
    case.extra = json!({
        "env": env(),
        "reference": reference,
        "declared": declared.iter().map(|p| p.key).collect::<Vec<_>>(),
        "dynamic": dynamic != 0,
    });
    case.nontrivial = forms >= 2 || dynamic != 0 || case.labels.iter().any(|l| l == "function-typed-default");
    case
}

impl Property for C18 {
    fn id(&self) -> &'static str {
        "C18"
    }
    fn rule(&self) -> String {
        "prop types with 2-10 members (string, number, object, array, union, function-typed `() => void` and `Function`, unions that contain a function type beside another member, quoted / hyphenated / numeric keys) x default objects mixing entry forms {literal, non-literal expression (1+1, [1], {a:1}, identifier, unary, template, call, undefined), function-valued default, shorthand, getter, method, async method} x key spellings {identifier, quoted, [\"literal\"], numeric, spelled differently from the type} x extra keys not in the type x the dynamic forms {default is an identifier, contains a spread, a computed identifier key, a computed expression key}. Oracle: the checker resolves each prop's default the way Vue does (a function default is called as a factory unless the prop type is Function or skipFactory is set) on the props option received by the mock defineComponent (after the mock's real mergeDefaults when that path is taken) and compares it with the value of the written expression evaluated in a reference module (functions compared by what they return and by async-ness; getters by their value; methods and dynamic entries through the same Vue rule); props without a written default must have none. non-trivial = >=2 default entries, a dynamic form, or a Function-typed prop with a default; distinct by hash(source)".into()
    }
    fn assumptions(&self) -> Vec<String> {
        vec![
            "getter / method defaults for Function-typed props are not generated (statement speaks of the written function itself)".into(),
            "mock mergeDefaults is Vue's algorithm".into(),
        ]
    }
    fn max_bytes(&self) -> usize {
        200
    }
    fn cases(&self, tier: Tier) -> u32 {
        match tier {
            Tier::Quick => 15_000,
            Tier::Thorough => 150_000,
        }
    }
    fn uses_node(&self) -> bool {
        true
    }
    fn generate(&self, c: &mut Choices) -> Case {
        gen_case(c)
    }
    fn check(&self, case: &Case, ctx: &mut Ctx) -> Verdict {
        let (diags, main) = match eval_define(case, ctx, json!({"callFunctions": true})) {
            Ok(x) => x,
            Err(v) => return v,
        };
        if !diags.is_empty() {
            return Verdict::Violation {
                kind: "unexpected-diagnostic".into(),
                detail: json!({"diags": diags, "output": main["output"]}),
            };
        }
        if !main["error"].is_null() {
            return Verdict::Violation {
                kind: "evaluation-error".into(),
                detail: json!({"error": main["error"], "output": main["output"]}),
            };
        }
        let reference = case.extra["reference"].as_str().unwrap_or("");
        let r = match node_eval(ctx, vec![("ref", reference)], &case.extra["env"], &json!({"callFunctions": true}), None) {
            Ok(r) => r,
            Err(v) => return v,
        };
        if !r["ref"]["error"].is_null() {
            return Verdict::Infra(format!("reference failed: {} \n{}", r["ref"]["error"], reference));
        }
        // expected: canonical plain object {"$":"o","e":[[k, v]...]}
        let mut exp = serde_json::Map::new();
        if let Some(es) = r["ref"]["exports"]["expected"]["e"].as_array() {
            for kv in es {
                exp.insert(kv[0].as_str().unwrap_or("").to_string(), kv[1].clone());
            }
        }
        let props = &main["calls"][0]["props"];
        for k in case.extra["declared"].as_array().cloned().unwrap_or_default() {
            let k = k.as_str().unwrap_or("");
            let obs = &props[k];
            if obs.is_null() {
                return Verdict::Violation {
                    kind: "prop-missing".into(),
                    detail: json!({"key": k, "options": main["calls"][0], "output": main["output"]}),
                };
            }
            let has = obs["has_default"].as_bool().unwrap_or(false);
            match exp.get(k) {
                None => {
                    if has {
                        return Verdict::Violation {
                            kind: "default-invented".into(),
                            detail: json!({"key": k, "observed": obs, "output": main["output"]}),
                        };
                    }
                }
                Some(e) => {
                    // `undefined` written as default: having none is equivalent
                    let undef = e.get("$").map(|d| d == "u").unwrap_or(false);
                    if !has && !undef {
                        return Verdict::Violation {
                            kind: "default-lost".into(),
                            detail: json!({"key": k, "expected": e, "observed": obs, "output": main["output"]}),
                        };
                    }
                    if has && obs["resolved"] != *e {
                        return Verdict::Violation {
                            kind: "default-value-changed".into(),
                            detail: json!({"key": k, "expected": e, "observed": obs["resolved"], "prop": obs, "output": main["output"]}),
                        };
                    }
                }
            }
        }
        Verdict::Pass
    }
    fn required_labels(&self) -> Vec<&'static str> {
        vec![
            "literal", "expression", "function-valued-default", "shorthand", "getter", "method",
            "async-method", "computed-literal-key", "key-spelling-differs-from-type", "extra-key",
            "function-typed-default", "dynamic-identifier", "dynamic-spread", "dynamic-computed-key",
            "dynamic-computed-expression-key",
        ]
    }
}
