//! C15 - the vnode factory is createVNode unless a pragma names another.

use serde_json::json;

use crate::choices::Choices;
use crate::gen::jsx::{RefCfg, WS_ONLY_DROP};
use crate::gen::opts::Opts;
use crate::gen::sem::{Sem, SemCfg};
use crate::props::semantic::{compare_to_refs, node_eval, transform_for_eval};
use crate::runner::{Case, Ctx, Property, Tier, Verdict};

pub struct C15;

/// (annotation text, effective factory name)
const TEXTS: &[(&str, Option<&str>)] = &[
    ("@jsx h", Some("h")),
    ("@jsx  h", Some("h")),
    ("@jsx h trailing words", Some("h")),
    ("@jsx", None),
    ("@jsxImportSource vue", None),
    ("@jsxRuntime classic", None),
    ("@jsxFrag F", None),
    ("jsx h", None),
    ("see the @jsx, annotation", None),
    ("@jsx\th", Some("h")),
    // several annotations in one (block) comment: only the `@jsx <name>` line counts
    ("@jsxRuntime classic\n * @jsx h", Some("h")),
    ("@jsx h\n * @jsxFrag F\n * @jsxImportSource vue", Some("h")),
    ("@jsx\n * @jsx h", Some("h")),
];
const STYLES: &[&str] = &["block", "jsdoc", "line", "jsdoc-multiline"];
const PLACEMENTS: &[&str] = &["head", "before-stmt-1", "before-stmt-2", "inside-function", "none"];

fn render_comment(style: &str, text: &str) -> String {
    // multi-line texts only make sense in block comments
    let style = if text.contains('\n') && style == "line" { "jsdoc-multiline" } else { style };
    match style {
        "block" => format!("/* {text} */"),
        "jsdoc" => format!("/** {text} */"),
        "line" => format!("// {text}"),
        _ => format!("/**\n * {text}\n */"),
    }
}

fn build(c: &mut Choices, placement: usize, style: usize, text: usize, opt_pragma: bool, seed_body: bool) -> Case {
    let mut opts = if seed_body {
        Opts::default()
    } else {
        crate::gen::opts::any_opts(c, false, false)
    };
    opts.pragma = if opt_pragma { Some("opt".into()) } else { None };
    let cfg = SemCfg {
        max_attrs: 2,
        max_children: 2,
        max_depth: 2,
        component_weight: 3,
        ..SemCfg::default()
    };
    let mut g = Sem::new(c, cfg, opts.clone());
    g.env.factories = vec!["h".into(), "opt".into(), "F".into()];
    let n0 = g.node(0);
    let n1 = g.node(0);
    let mut kids = g.children(1);
    g.avoid_sole_fn_or_obj(&mut kids);
    let n2 = crate::gen::jsx::Node::Frag(kids);
    let (ann, eff) = TEXTS[text];
    let pl = PLACEMENTS[placement];
    let comment = render_comment(STYLES[style], ann);
    let effective = match pl {
        "head" | "before-stmt-1" | "before-stmt-2" => eff,
        _ => None,
    };
    let expected: Option<String> = effective.map(|s| s.to_string()).or(opts.pragma.clone());
    let at = |p: &str| if pl == p { format!("{comment}\n") } else { String::new() };
    let stmts = vec![("e0".to_string(), n0.clone())];
    // assemble by hand: the shared assembler has no comment slots
    let (main_std, _) = g.assemble(&stmts);
    let head_lines: Vec<&str> = main_std.lines().take_while(|l| !l.starts_with("export const e0")).collect();
    let head = head_lines.join("\n");
    let main = format!(
        "{}{head}\n{}export const e0 = {};\n{}export const thunk1 = () => {{\n  {}return {};\n}};\nexport const e2 = {};\n",
        at("head"),
        at("before-stmt-1"),
        n0.jsx(),
        at("before-stmt-2"),
        if pl == "inside-function" { format!("{comment}\n  ") } else { String::new() },
        n1.jsx(),
        n2.jsx(),
    );
    let mut refs = vec![];
    for drop in [false, true] {
        WS_ONLY_DROP.with(|w| w.set(drop));
        let rc = RefCfg {
            ws_only_drop: drop,
            vslots_wrap: true,
            merge_props: opts.merge_props,
            transform_on: opts.transform_on,
            object_slots: opts.enable_object_slots,
            factory: expected.clone(),
        };
        refs.push(format!(
            "{head}\nimport {{ R }} from \"ref\";\n{}\nexport const e0 = {};\nexport const thunk1 = () => {{\n  return {};\n}};\nexport const e2 = {};\n",
            rc.js(),
            n0.reference(),
            n1.reference(),
            n2.reference(),
        ));
        if !g.has_ws_only {
            break;
        }
    }
    WS_ONLY_DROP.with(|w| w.set(false));
    let mut case = Case::new(main, "jsx", Some(opts.json()));
    case.labels = g.labels.clone();
    case.label(format!("placement={pl}"));
    if pl != "none" {
        case.label(format!("style={}", STYLES[style]));
        case.label(format!("text={ann}"));
    }
    case.label(format!("option-pragma={opt_pragma}"));
    case.label(format!("expected-factory={}", expected.clone().unwrap_or_else(|| "createVNode".into())));
    case.extra = json!({
        "env": g.env.json(),
        "refs": refs,
        "protocol": {"factory": true, "callThunks": true},
        "expected_factory": expected,
    });
    case.nontrivial = pl != "none";
    case
}

impl Property for C15 {
    fn id(&self) -> &'static str {
        "C15"
    }
    fn rule(&self) -> String {
        "exhaustive comment matrix {placement: file head, before the 1st / 2nd top-level statement, inside a function body, none} x {style: /* */, /** */, //, multi-line JSDoc} x {text: '@jsx h', extra spaces, tab, trailing words, '@jsx' without name, @jsxImportSource, @jsxRuntime, @jsxFrag, 'jsx h', prose with '@jsx,'} x pragma option absent / 'opt', on a fixed body, plus the same matrix on random bodies (elements, component hosts, fragments at module level and inside a function) under random other options; at most one effective annotation per module. Oracle: reference lowering whose factory is the expected one (head/top-level '@jsx <name>' > option > createVNode); the canoniser reports which recording stub created every vnode (h / opt / F / createVNode); additionally createVNode must not be imported when nothing uses it. non-trivial = module with a comment (>=3 vnode calls each); distinct by hash(source, options, env)".into()
    }
    fn assumptions(&self) -> Vec<String> {
        vec![
            "annotation mid-sentence followed by whitespace and a word is not generated (Babel's regex would accept it; the statement is silent)".into(),
            "pragma stubs are globals installed by the evaluator".into(),
        ]
    }
    fn max_bytes(&self) -> usize {
        300
    }
    fn cases(&self, tier: Tier) -> u32 {
        match tier {
            Tier::Quick => 10_000,
            Tier::Thorough => 100_000,
        }
    }
    fn uses_node(&self) -> bool {
        true
    }
    fn exhaustive(&self, _tier: Tier) -> Vec<(String, Vec<Case>)> {
        let mut cases = vec![];
        for p in 0..PLACEMENTS.len() {
            for s in 0..STYLES.len() {
                for t in 0..TEXTS.len() {
                    for o in [false, true] {
                        if PLACEMENTS[p] == "none" && (s > 0 || t > 0) {
                            continue;
                        }
                        for body in 0..4u8 {
                            let bytes: Vec<u8> = (0..200).map(|i| (i as u8).wrapping_mul(37).wrapping_add(body.wrapping_mul(91))).collect();
                            let mut ch = Choices::new(&bytes);
                            cases.push(build(&mut ch, p, s, t, o, true));
                        }
                    }
                }
            }
        }
        vec![("comment matrix: placement x style x text x option x 4 fixed bodies".into(), cases)]
    }
    fn generate(&self, c: &mut Choices) -> Case {
        let p = c.pick(PLACEMENTS.len());
        let s = c.pick(STYLES.len());
        let t = c.pick(TEXTS.len());
        let o = c.bool();
        build(c, p, s, t, o, false)
    }
    fn check(&self, case: &Case, ctx: &mut Ctx) -> Verdict {
        let t = match transform_for_eval(case) {
            Ok(t) => t,
            Err(v) => return v,
        };
        if !t.diags.is_empty() {
            return Verdict::Violation {
                kind: "unexpected-diagnostic".into(),
                detail: json!({"diags": t.diags}),
            };
        }
        let refs: Vec<String> = case.extra["refs"]
            .as_array()
            .map(|a| a.iter().map(|s| s.as_str().unwrap_or("").to_string()).collect())
            .unwrap_or_default();
        let mut modules: Vec<(String, String)> = vec![("main".into(), t.code.clone())];
        for (i, r) in refs.iter().enumerate() {
            modules.push((format!("ref{i}"), r.clone()));
        }
        let mods: Vec<(&str, &str)> = modules.iter().map(|(a, b)| (a.as_str(), b.as_str())).collect();
        let results = match node_eval(ctx, mods, &case.extra["env"], &case.extra["protocol"], None) {
            Ok(r) => r,
            Err(v) => return v,
        };
        for i in 0..refs.len() {
            if !results[format!("ref{i}")]["error"].is_null() {
                return Verdict::Infra(format!("reference failed: {}", results[format!("ref{i}")]["error"]));
            }
        }
        if let Err(info) = compare_to_refs(&results, refs.len(), &["error", "exports"]) {
            return Verdict::Violation {
                kind: "wrong-factory-or-value".into(),
                detail: json!({"info": info, "expected_factory": case.extra["expected_factory"],
                    "output": t.code, "main": results["main"]["exports"], "error": results["main"]["error"]}),
            };
        }
        // createVNode is not imported unless otherwise needed
        if t.code.contains("createVNode as ") {
            // find local name
            if let Some(ix) = t.code.find("createVNode as ") {
                let rest = &t.code[ix + "createVNode as ".len()..];
                let local: String = rest.chars().take_while(|c| c.is_alphanumeric() || *c == '_' || *c == '$').collect();
                let uses = t.code.matches(&format!("{local}(")).count();
                if uses == 0 {
                    return Verdict::Violation {
                        kind: "createVNode-imported-but-unused".into(),
                        detail: json!({"output": t.code}),
                    };
                }
            }
        }
        Verdict::Pass
    }
    fn required_labels(&self) -> Vec<&'static str> {
        vec![
            "placement=head",
            "placement=before-stmt-1",
            "placement=before-stmt-2",
            "placement=inside-function",
            "style=jsdoc-multiline",
            "style=line",
            "expected-factory=h",
            "expected-factory=opt",
            "expected-factory=createVNode",
        ]
    }
}
