//! C15 - the vnode factory is createVNode unless a pragma names another.

use serde_json::json;

use crate::choices::Choices;
use crate::gen::jsx::{RefCfg, WS_ONLY_DROP};
use crate::gen::opts::Opts;
use crate::gen::sem::{Sem, SemCfg};
use crate::props::semantic::{compare_to_refs, node_eval, transform_for_eval};
use crate::runner::{Case, Ctx, Property, Tier, Verdict};

pub struct C15;

/// (annotation text, effective factory name)
const TEXTS: &[(&str, Option<&str>)] = &[
    ("@jsx h", Some("h")),
    ("@jsx  h", Some("h")),
    ("@jsx h trailing words", Some("h")),
    ("@jsx", None),
    ("@jsxImportSource vue", None),
    ("@jsxRuntime classic", None),
    ("@jsxFrag F", None),
    ("jsx h", None),
    ("see the @jsx, annotation", None),
    ("@jsx\th", Some("h")),
    // several annotations in one (block) comment: only the `@jsx <name>` line counts
    ("@jsxRuntime classic\n * @jsx h", Some("h")),
    ("@jsx h\n * @jsxFrag F\n * @jsxImportSource vue", Some("h")),
    ("@jsx\n * @jsx h", Some("h")),
    // words that were reserved in ES3 only are ordinary identifiers
    ("@jsx native", Some("native")),
    ("@jsx int", Some("int")),
];
const STYLES: &[&str] = &["block", "jsdoc", "line", "jsdoc-multiline"];
const PLACEMENTS: &[&str] = &["head", "before-stmt-1", "before-stmt-2", "inside-function", "none"];

fn render_comment(style: &str, text: &str) -> String {
    // multi-line texts only make sense in block comments
    let style = if text.contains('\n') && style == "line" { "jsdoc-multiline" } else { style };
    match style {
        "block" => format!("/* {text} */"),
        "jsdoc" => format!("/** {text} */"),
        "line" => format!("// {text}"),
        _ => format!("/**\n * {text}\n */"),
    }
}

fn build(c: &mut Choices, placement: usize, style: usize, text: usize, opt_pragma: bool, seed_body: bool) -> Case {
    let mut opts = if seed_body {
        Opts::default()
    } else {
        crate::gen::opts::any_opts(c, false, false)
    };
    opts.pragma = if opt_pragma {
        Some(if c.chance(1, 4) { "final".into() } else { "opt".into() })
    } else {
        None
    };
    let cfg = SemCfg {
        max_attrs: 2,
        max_children: 2,
        max_depth: 2,
        component_weight: 3,
        ..SemCfg::default()
    };
    let mut g = Sem::new(c, cfg, opts.clone());
    g.env.factories = vec!["h".into(), "opt".into(), "F".into(), "native".into(), "int".into(), "final".into()];
    let n0 = g.node(0);
    let n1 = g.node(0);
    let mut kids = g.children(1);
    g.avoid_sole_fn_or_obj(&mut kids);
    let n2 = crate::gen::jsx::Node::Frag(kids);
    let (ann, eff) = TEXTS[text];
    let pl = PLACEMENTS[placement];
    let comment = render_comment(STYLES[style], ann);
    let effective = match pl {
        "head" | "before-stmt-1" | "before-stmt-2" => eff,
        _ => None,
    };
    let expected: Option<String> = effective.map(|s| s.to_string()).or(opts.pragma.clone());
    // other comments around the annotation comment, attached to the same statement
    let neighbour = g.c.pick(4);
    let comment = match neighbour {
        1 => format!("{comment}\n/* eslint-disable no-unused-vars */"),
        2 => format!("// licence: MIT\n{comment}"),
        3 => format!("/* first */\n{comment}\n// last"),
        _ => comment,
    };
    let at = |p: &str| if pl == p { format!("{comment}\n") } else { String::new() };
    let stmts = vec![("e0".to_string(), n0.clone())];
    // assemble by hand: the shared assembler has no comment slots
    let (main_std, _) = g.assemble(&stmts);
    let head_lines: Vec<&str> = main_std.lines().take_while(|l| !l.starts_with("export const e0")).collect();
    let head = head_lines.join("\n");
    let main = format!(
        "{}{head}\n{}export const e0 = {};\n{}export const thunk1 = () => {{\n  {}return {};\n}};\nexport const e2 = {};\n",
        at("head"),
        at("before-stmt-1"),
        n0.jsx(),
        at("before-stmt-2"),
        if pl == "inside-function" { format!("{comment}\n  ") } else { String::new() },
        n1.jsx(),
        n2.jsx(),
    );
    let mut refs = vec![];
    for drop in [false, true] {
        WS_ONLY_DROP.with(|w| w.set(drop));
        let rc = RefCfg {
            ws_only_drop: drop,
            vslots_wrap: true,
            merge_props: opts.merge_props,
            transform_on: opts.transform_on,
            object_slots: opts.enable_object_slots,
            factory: expected.clone(),
        };
        refs.push(format!(
            "{head}\nimport {{ R }} from \"ref\";\n{}\nexport const e0 = {};\nexport const thunk1 = () => {{\n  return {};\n}};\nexport const e2 = {};\n",
            rc.js(),
            n0.reference(),
            n1.reference(),
            n2.reference(),
        ));
        if !g.has_ws_only {
            break;
        }
    }
    WS_ONLY_DROP.with(|w| w.set(false));
    let mut case = Case::new(main, "jsx", Some(opts.json()));
    case.labels = g.labels.clone();
    case.label(format!("placement={pl}"));
    if pl != "none" {
        case.label(format!("style={}", STYLES[style]));
        case.label(format!("text={ann}"));
    }
    case.label(format!("option-pragma={opt_pragma}"));
    if pl != "none" && neighbour != 0 {
        case.label("other-comments-around-the-annotation");
    }
    case.label(format!("expected-factory={}", expected.clone().unwrap_or_else(|| "createVNode".into())));
    case.extra = json!({
        "env": g.env.json(),
        "refs": refs,
        "protocol": {"factory": true, "callThunks": true},
        "expected_factory": expected,
    });
    case.nontrivial = pl != "none";
    case
}

/// An `@jsx <name>` comment in front of a statement that is *not* top-level (inside a TS
/// namespace / module / `declare global` block, a block statement, a function, a class static
/// block) is an ordinary comment. Metamorphic oracle, no evaluation: the output must equal the
/// output of the same module with the annotation spelled `@jsx-off`.
fn nested_annotation_case(c: &mut Choices) -> Case {
    let texts: Vec<&str> = TEXTS.iter().filter(|(_, e)| e.is_some()).map(|(t, _)| *t).collect();
    let text = texts[c.pick(texts.len())];
    let style = STYLES[c.pick(STYLES.len())];
    let container = c.pick(6);
    let opt_pragma = c.chance(1, 3);
    let comment = render_comment(style, text);
    let inner = "export const inner = <p class=\"i\">{x}</p>;";
    let (open, close, lang) = match container {
        0 => ("namespace W {", "}", "tsx"),
        1 => ("module M {", "}", "tsx"),
        2 => ("declare global {", "}", "tsx"),
        3 => ("{", "}", "jsx"),
        4 => ("export function fnn() {", "}", "jsx"),
        _ => ("class K { static {", "} }", "jsx"),
    };
    let inner = if container >= 3 { inner.replace("export const", "const") } else { inner.to_string() };
    let src = format!(
        "import {{ x, C1 }} from \"env\";\nexport const before = <div class=\"a\">b</div>;\n{open}\n  {comment}\n  {inner}\n{close}\nexport const after = <><C1>{{x}}</C1></>;\n"
    );
    let mut opts = Opts::default();
    if opt_pragma {
        opts.pragma = Some("opt".into());
    }
    let mut case = Case::new(src, lang, Some(opts.json()));
    case.extra = json!({"kind": "nested-annotation", "text": text});
    case.label("placement=nested-not-top-level");
    case.label(format!("container={}", ["namespace", "module", "declare-global", "block", "function", "class-static-block"][container]));
    case.label(format!("option-pragma={opt_pragma}"));
    case.nontrivial = true;
    case
}

fn check_nested_annotation(case: &Case) -> Verdict {
    use crate::driver::{with_transform, Lang};
    let lang = Lang::from_str(&case.lang);
    let run = |src: &str| -> Result<(String, Vec<String>), String> {
        with_transform(src, lang, case.options.as_deref(), |t| {
            let raw = t.raw.as_ref().ok_or_else(|| format!("panicked: {:?}", t.panicked))?;
            Ok((t.print_final_nocomments(raw)?, t.diags.clone()))
        })
        .map_err(|e| format!("rejected: {e:?}"))?
    };
    let neutral = case.source.replace("@jsx", "@jsx-off");
    let (a, b) = match (run(&case.source), run(&neutral)) {
        (Ok(a), Ok(b)) => (a, b),
        (Err(e), _) | (_, Err(e)) => {
            if e.starts_with("rejected") {
                return Verdict::Discard(format!("parser-{e}"));
            }
            return Verdict::Violation { kind: "transform-failed".into(), detail: json!({"error": e}) };
        }
    };
    if a != b {
        return Verdict::Violation {
            kind: "nested-annotation-has-an-effect".into(),
            detail: json!({"with_annotation": a.0, "with_neutral_comment": b.0, "diags": [a.1, b.1]}),
        };
    }
    Verdict::Pass
}

impl Property for C15 {
    fn id(&self) -> &'static str {
        "C15"
    }
    fn rule(&self) -> String {
        "exhaustive comment matrix {placement: file head, before the 1st / 2nd top-level statement, inside a function body, none} x {style: /* */, /** */, //, multi-line JSDoc} x {text: '@jsx h', extra spaces, tab, trailing words, '@jsx' without name, @jsxImportSource, @jsxRuntime, @jsxFrag, 'jsx h', prose with '@jsx,'} x pragma option absent / 'opt', on a fixed body, plus the same matrix on random bodies (elements, component hosts, fragments at module level and inside a function) under random other options; at most one effective annotation per module; plus annotations in front of statements that are not top-level (TS namespace / module / declare global blocks, block statement, function body, class static block): metamorphic, the output equals that of the same module with the annotation neutralised. Oracle: reference lowering whose factory is the expected one (head/top-level '@jsx <name>' > option > createVNode); the canoniser reports which recording stub created every vnode (h / opt / F / createVNode); additionally createVNode must not be imported when nothing uses it. non-trivial = module with a comment (>=3 vnode calls each); distinct by hash(source, options, env)".into()
    }
    fn assumptions(&self) -> Vec<String> {
        vec![
            "annotation mid-sentence followed by whitespace and a word is not generated (Babel's regex would accept it; the statement is silent)".into(),
            "pragma stubs are globals installed by the evaluator".into(),
        ]
    }
    fn max_bytes(&self) -> usize {
        300
    }
    fn cases(&self, tier: Tier) -> u32 {
        match tier {
            Tier::Quick => 10_000,
            Tier::Thorough => 100_000,
        }
    }
    fn uses_node(&self) -> bool {
        true
    }
    fn exhaustive(&self, _tier: Tier) -> Vec<(String, Vec<Case>)> {
        let mut cases = vec![];
        for p in 0..PLACEMENTS.len() {
            for s in 0..STYLES.len() {
                for t in 0..TEXTS.len() {
                    for o in [false, true] {
                        if PLACEMENTS[p] == "none" && (s > 0 || t > 0) {
                            continue;
                        }
                        for body in 0..4u8 {
                            let bytes: Vec<u8> = (0..200).map(|i| (i as u8).wrapping_mul(37).wrapping_add(body.wrapping_mul(91))).collect();
                            let mut ch = Choices::new(&bytes);
                            cases.push(build(&mut ch, p, s, t, o, true));
                        }
                    }
                }
            }
        }
        vec![("comment matrix: placement x style x text x option x 4 fixed bodies".into(), cases)]
    }
    fn generate(&self, c: &mut Choices) -> Case {
        if c.chance(1, 10) {
            return nested_annotation_case(c);
        }
        let p = c.pick(PLACEMENTS.len());
        let s = c.pick(STYLES.len());
        let t = c.pick(TEXTS.len());
        let o = c.bool();
        build(c, p, s, t, o, false)
    }
    fn check(&self, case: &Case, ctx: &mut Ctx) -> Verdict {
        if case.extra["kind"] == "nested-annotation" {
            return check_nested_annotation(case);
        }
        let t = match transform_for_eval(case) {
            Ok(t) => t,
            Err(v) => return v,
        };
        if !t.diags.is_empty() {
            return Verdict::Violation {
                kind: "unexpected-diagnostic".into(),
                detail: json!({"diags": t.diags}),
            };
        }
        let refs: Vec<String> = case.extra["refs"]
            .as_array()
            .map(|a| a.iter().map(|s| s.as_str().unwrap_or("").to_string()).collect())
            .unwrap_or_default();
        let mut modules: Vec<(String, String)> = vec![("main".into(), t.code.clone())];
        for (i, r) in refs.iter().enumerate() {
            modules.push((format!("ref{i}"), r.clone()));
        }
        let mods: Vec<(&str, &str)> = modules.iter().map(|(a, b)| (a.as_str(), b.as_str())).collect();
        let results = match node_eval(ctx, mods, &case.extra["env"], &case.extra["protocol"], None) {
            Ok(r) => r,
            Err(v) => return v,
        };
        for i in 0..refs.len() {
            if !results[format!("ref{i}")]["error"].is_null() {
                return Verdict::Infra(format!("reference failed: {}", results[format!("ref{i}")]["error"]));
            }
        }
        if let Err(info) = compare_to_refs(&results, refs.len(), &["error", "exports"]) {
            return Verdict::Violation {
                kind: "wrong-factory-or-value".into(),
                detail: json!({"info": info, "expected_factory": case.extra["expected_factory"],
                    "output": t.code, "main": results["main"]["exports"], "error": results["main"]["error"]}),
            };
        }
        // createVNode is not imported unless otherwise needed
        if t.code.contains("createVNode as ") {
            // find local name
            if let Some(ix) = t.code.find("createVNode as ") {
                let rest = &t.code[ix + "createVNode as ".len()..];
                let local: String = rest.chars().take_while(|c| c.is_alphanumeric() || *c == '_' || *c == '$').collect();
                let uses = t.code.matches(&format!("{local}(")).count();
                if uses == 0 {
                    return Verdict::Violation {
                        kind: "createVNode-imported-but-unused".into(),
                        detail: json!({"output": t.code}),
                    };
                }
            }
        }
        Verdict::Pass
    }
    fn required_labels(&self) -> Vec<&'static str> {
        vec![
            "placement=head",
            "placement=before-stmt-1",
            "placement=before-stmt-2",
            "placement=inside-function",
            "style=jsdoc-multiline",
            "style=line",
            "expected-factory=h",
            "expected-factory=opt",
            "expected-factory=createVNode",
        ]
    }
}
