//! C09 - code that is not JSX is left exactly as written; the transform is idempotent.

use serde_json::json;

use crate::astcmp::{vue_define_component_ctxt, Cmp};
use crate::choices::Choices;
use crate::driver::{jsx_census, module_json, with_transform, Lang, Rejected};
use crate::gen::grammar::{Knobs, G};
use crate::gen::opts::any_opts;
use crate::runner::{verif_root, Case, Ctx, Property, Tier, Verdict};

pub struct C09;

pub fn gen_case(c: &mut Choices) -> Case {
    let tsx = c.chance(1, 3);
    let mut opts = any_opts(c, true, tsx);
    let jsx = c.chance(3, 4);
    if tsx && c.chance(2, 3) {
        opts.resolve_type = true;
    }
    let knobs = Knobs {
        tsx,
        unusual: false,
        adversarial: false,
        jsx,
        max_items: 6,
        force_define_component: tsx && opts.resolve_type && c.chance(1, 2),
        ..Knobs::default()
    };
    let mut g = G::new(c, knobs);
    let src = g.module();
    let f = g.f.clone();
    if f.define_component && opts.resolve_type {
        // resolveType may augment the call; covered by the embedding rules
    } else if !tsx {
        opts.resolve_type = false;
    }
    let mut case = Case::new(src, if tsx { "tsx" } else { "jsx" }, Some(opts.json()));
    for u in &f.contexts {
        case.label(format!("ctx={u}"));
    }
    case.label(if f.jsx > 0 { "has-jsx" } else { "jsx-free" });
    case.label(format!("lang={}", case.lang));
    if opts.resolve_type {
        case.label("resolveType");
    }
    case.nontrivial = (f.jsx >= 1 && case.source.lines().count() >= 6) || (f.jsx == 0 && case.source.lines().count() >= 10);
    case
}

pub fn judge(case: &Case) -> Verdict {
    let lang = Lang::from_str(&case.lang);
    let opts_json = case.options.as_deref();
    let resolve_type = opts_json.map(|o| o.contains("\"resolveType\":true")).unwrap_or(false);
    let r = with_transform(&case.source, lang, opts_json, |t| {
        if t.panicked.is_some() {
            return (Verdict::Discard("visitor-panicked(C08)".into()), None);
        }
        let raw = t.raw.as_ref().unwrap();
        let in_census = jsx_census(&t.input).total;
        let in_json = module_json(&t.input);
        // (decided on the tree: `defineComponent\0(...)` is a call too for swc's lexer)
        let has_dc_call = resolve_type
            && crate::astcmp::has_define_component_call(&in_json["body"], vue_define_component_ctxt(&in_json["body"]));
        let out_json = module_json(raw);
        if in_census == 0 && !has_dc_call {
            // returned unchanged, nothing added
            if in_json != out_json {
                let cmp = Cmp { resolve_type: false, dc_ctxt: None };
                let why = cmp.embed(&in_json["body"], &out_json["body"], "$body").err();
                return (
                    Verdict::Violation {
                        kind: "jsx-free-module-changed".into(),
                        detail: json!({"first_difference": why,
                            "output": t.print_raw(raw).unwrap_or_default()}),
                    },
                    None,
                );
            }
            let a = t.print_raw(&t.input);
            let b = t.print_raw(raw);
            if a != b {
                return (
                    Verdict::Violation {
                        kind: "jsx-free-module-printed-differently".into(),
                        detail: json!({"input_print": a.ok(), "output_print": b.ok()}),
                    },
                    None,
                );
            }
        } else {
            let cmp = Cmp { resolve_type, dc_ctxt: vue_define_component_ctxt(&in_json["body"]) };
            if let Err(e) = cmp.embed(&in_json["body"], &out_json["body"], "$body") {
                return (
                    Verdict::Violation {
                        kind: "surrounding-code-not-preserved".into(),
                        detail: json!({"where": e, "output": t.print_raw(raw).unwrap_or_default()}),
                    },
                    None,
                );
            }
        }
        if std::env::var("VJX_FAITHFUL_STATS").is_ok() {
            eprintln!("FAITHFUL {:?}", crate::driver::print_is_faithful(t, &t.input));
        }
        // idempotence needs a diagnostic-free, JSX-free output
        if !t.diags.is_empty() || jsx_census(raw).total > 0 {
            return (Verdict::Pass, None);
        }
        match (t.print_final(raw), t.print_final_nocomments(raw)) {
            (Ok(code), Ok(bare)) => (Verdict::Pass, Some((code, bare))),
            _ => (Verdict::Pass, None),
        }
    });
    let (v, code) = match r {
        Ok(x) => x,
        Err(Rejected::Options(e)) => return Verdict::Infra(format!("options rejected: {e}")),
        Err(Rejected::Parse(_)) => return Verdict::Discard("parser-rejected".into()),
        Err(Rejected::ParserPanic(_)) => return Verdict::Discard("parser-panicked".into()),
    };
    if !matches!(v, Verdict::Pass) {
        return v;
    }
    let Some((code, bare)) = code else { return Verdict::Pass };
    // second pass over the printed output
    let second = with_transform(&code, lang, opts_json, |t2| {
        if let Some(p) = &t2.panicked {
            return Err(json!({"second_pass_panicked": p}));
        }
        let raw2 = t2.raw.as_ref().unwrap();
        if !t2.diags.is_empty() {
            // the first pass's own output must not be reported as erroneous
            return Err(json!({"second_pass_diagnostics": t2.diags}));
        }
        // swc's own print -> parse -> print must be stable on this text, otherwise a difference
        // says nothing about the transform (seen: `(() => 1) as any && x`)
        match t2.print_final_nocomments(&t2.input) {
            Ok(plain) if plain == bare => {}
            _ => return Ok(()),
        }
        match t2.print_final_nocomments(raw2) {
            Ok(c2) => {
                if c2 != bare {
                    Err(json!({"first": bare, "second": c2}))
                } else {
                    Ok(())
                }
            }
            Err(e) => Err(json!({"second_pass_unprintable": e})),
        }
    });
    match second {
        Ok(Ok(())) => Verdict::Pass,
        Ok(Err(d)) => {
            // guard against blaming swc's own print / parse round trip: the *input* must be
            // stable under print -> parse -> print (no transform involved)
            let stable = with_transform(&case.source, lang, Some("{}"), |t| {
                // the printed text must also mean the same program as the AST it was printed from
                // (seen: `((a, b) as any)` printed as `a, b as any`, which re-parses - differently)
                if crate::driver::print_is_faithful(t, &t.input) != Some(true) {
                    return Some(false);
                }
                let p1c = t.print_final(&t.input).ok()?;
                let p1 = t.print_final_nocomments(&t.input).ok()?;
                let p2 = with_transform(&p1c, lang, Some("{}"), |t2| t2.print_final_nocomments(&t2.input).ok())
                    .ok()
                    .flatten()?;
                Some(p1 == p2)
            })
            .ok()
            .flatten();
            if stable != Some(true) {
                return Verdict::Discard("codegen-roundtrip-limitation".into());
            }
            Verdict::Violation {
                kind: "not-idempotent".into(),
                detail: d,
            }
        }
        // output not re-parseable with JSX enabled: C07's business (or a codegen limitation)
        Err(_) => Verdict::Discard("output-not-reparseable-with-jsx-on".into()),
    }
}

fn corpus_cases(tier: Tier, seed: u64) -> Vec<Case> {
    let dir = verif_root().join("corpus/jsfree");
    let mut files: Vec<_> = std::fs::read_dir(&dir)
        .map(|rd| rd.filter_map(|e| e.ok()).map(|e| e.path()).collect())
        .unwrap_or_default();
    files.sort();
    let option_sets: Vec<String> = vec![
        "{}".into(),
        "{\"optimize\":true,\"transformOn\":true}".into(),
        "{\"resolveType\":true}".into(),
        "{\"mergeProps\":false,\"enableObjectSlots\":false,\"pragma\":\"h\"}".into(),
        "{\"customElementPatterns\":[\"^i-\"],\"optimize\":true,\"resolveType\":true}".into(),
        "{\"transformOn\":true,\"mergeProps\":false}".into(),
        "{\"optimize\":true,\"enableObjectSlots\":false}".into(),
        "{\"pragma\":\"h\",\"resolveType\":true,\"transformOn\":true}".into(),
    ];
    let mut out = vec![];
    for (i, f) in files.iter().enumerate() {
        let Ok(src) = std::fs::read_to_string(f) else { continue };
        let lang = if f.extension().map(|e| e == "ts").unwrap_or(false) { "tsx" } else { "jsx" };
        let sets: Vec<usize> = if tier == Tier::Thorough {
            (0..option_sets.len()).collect()
        } else {
            // quick: a seed-dependent sample of 60 files, one option set each
            if (i as u64 + seed) % (files.len().max(60) as u64 / 60).max(1) != 0 {
                continue;
            }
            vec![(i + seed as usize) % option_sets.len()]
        };
        for s in sets {
            let mut c = Case::new(src.clone(), lang, Some(option_sets[s].clone()));
            c.label("corpus-file");
            c.nontrivial = src.lines().count() >= 20;
            c.extra = json!({"file": f.file_name().map(|n| n.to_string_lossy().to_string())});
            out.push(c);
        }
    }
    out
}

impl Property for C09 {
    fn id(&self) -> &'static str {
        "C09"
    }
    fn rule(&self) -> String {
        "(a) corpus of real-world JSX-free JavaScript (files of the image's npm tree + fixture outputs, /verif/corpus/jsfree) under 8 option sets incl. resolveType (quick: a sample of ~60 files, one set each; thorough: all files x 8 sets): serde-JSON of the output AST must equal the input's and the printed text must be byte-identical; (b) gen::grammar modules where JSX sits inside assignments, arrows, classes, loops, try/catch, switch, labelled blocks, TS declarations, other imports, comments, and JSX-free gen::grammar modules, under random options: lock-step embedding of the input AST in the output AST (equal node types and scalar fields; anything at an input JSX expression; statement lists embed in order with only generated imports / _isSlot / _-prefixed let/const added; an arrow expression body may become { decls; return e }; under resolveType a defineComponent call may gain or wrap its second argument with props/emits/name only); (c) every diagnostic-free output is fed back: print(T(parse(print(T(m))))) == print(T(m)). non-trivial = generated module with JSX and >=6 lines, JSX-free module >=10 lines, or corpus file >=20 lines; distinct by hash(source, options)".into()
    }
    fn assumptions(&self) -> Vec<String> {
        vec![
            "generated items are recognised by shape (import from 'vue' / the transform-on helper, function _isSlot, let/const of _-prefixed names)".into(),
            "idempotence is compared on printed text after hygiene + fixer".into(),
        ]
    }
    fn max_bytes(&self) -> usize {
        600
    }
    fn cases(&self, tier: Tier) -> u32 {
        match tier {
            Tier::Quick => 20_000,
            Tier::Thorough => 250_000,
        }
    }
    fn exhaustive(&self, tier: Tier) -> Vec<(String, Vec<Case>)> {
        let seed = std::env::var("VERIF_SEED").ok().and_then(|s| s.parse().ok()).unwrap_or(1u64);
        let cases = corpus_cases(tier, seed);
        if cases.is_empty() {
            return vec![];
        }
        vec![(format!("JSX-free corpus sweep ({} file x option-set pairs)", cases.len()), cases)]
    }
    fn generate(&self, c: &mut Choices) -> Case {
        gen_case(c)
    }
    fn check(&self, case: &Case, _ctx: &mut Ctx) -> Verdict {
        judge(case)
    }
    fn extra_stage(
        &self,
        ctx: &mut Ctx,
        stats: &mut crate::runner::Stats,
    ) -> Result<Option<crate::runner::Violation>, String> {
        if ctx.tier != Tier::Thorough {
            return Ok(None);
        }
        crate::fuzzstage::fuzz_stage("C09", ctx, stats, 180, true)
    }
    fn required_labels(&self) -> Vec<&'static str> {
        vec!["has-jsx", "jsx-free", "corpus-file", "ctx=class", "ctx=try", "ctx=arrow-expr", "lang=tsx"]
    }
}
