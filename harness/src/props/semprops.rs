//! C02-C05: semantic properties sharing the reference-lowering judge, each with its own
//! generator configuration, classes and non-trivial rule.

use serde_json::json;

use crate::choices::Choices;
use crate::gen::jsx::*;
use crate::gen::opts::Opts;
use crate::gen::sem::SemCfg;
use crate::props::semantic::{judge_semantic, judge_semantic_for, sem_case};
use crate::runner::{Case, Ctx, Property, Tier, Verdict};

fn env_key(case: &mut Case) {
    let k = crate::choices::hash64(&case.extra["env"].to_string());
    case.extra["distinct_key"] = json!(k);
}

// --------------------------------------------------------------------------------------------
pub struct C02;

const SIGMA: &[&str] = &[" ", "\t", "\n", "\r", "\u{a0}", "a"];

fn text_case(text: &str, position: usize) -> Case {
    let piece = |s: &str| TextPiece {
        decoded: s.to_string(),
        entity: None,
    };
    let t = Child::Text(vec![piece(text)]);
    let x = Child::Expr(Ex::src("x", Cat::IdentBound));
    let y = Child::Expr(Ex::src("y", Cat::IdentBound));
    let children = match position {
        0 => vec![t],
        1 => vec![x, t, y],
        _ => vec![
            Child::Node(Node::El(Element {
                tag: Tag::Html("p".into()),
                attrs: vec![],
                children: vec![],
                self_closing: true,
            })),
            t,
            y,
        ],
    };
    let el = Node::El(Element {
        tag: Tag::Html("div".into()),
        attrs: vec![],
        children,
        self_closing: false,
    });
    let env = Env {
        bound: vec![("x".into(), v_str("X")), ("y".into(), v_num(2.0))],
        globals: vec![],
        factories: vec![],
    };
    let head = env.import_line();
    let main = format!("{head}\nexport const e0 = {};\n", el.jsx());
    let mut refs = vec![];
    let ws_only = is_ws_only_inline(text);
    for drop in [false, true] {
        WS_ONLY_DROP.with(|w| w.set(drop));
        let cfg = RefCfg {
            ws_only_drop: drop,
            vslots_wrap: true,
            merge_props: true,
            transform_on: false,
            object_slots: true,
            factory: None,
        };
        refs.push(format!(
            "{head}\nimport {{ R }} from \"ref\";\n{}\nexport const e0 = {};\n",
            cfg.js(),
            el.reference()
        ));
        if !ws_only {
            break;
        }
    }
    WS_ONLY_DROP.with(|w| w.set(false));
    let mut case = Case::new(main, "jsx", Some(Opts::default().json()));
    case.extra = json!({"env": env.json(), "refs": refs, "protocol": {}});
    case.label(format!("exhaustive-position-{position}"));
    if ws_only {
        case.label("ws-only-inline-text");
    }
    case.nontrivial = text.chars().any(|c| c != 'a') && !text.is_empty();
    case
}

impl Property for C02 {
    fn id(&self) -> &'static str {
        "C02"
    }
    fn rule(&self) -> String {
        "(a) exhaustive: every string over {space, tab, LF, CR, NBSP, 'a'} up to length 4 (quick) / 6 (thorough) as JSX text in three positions (only child; between two expression containers; between an element and a container), CRLF arising as CR.LF; (b) random text over the full alphabet (those + CRLF, U+2003, U+3000, U+2028, U+2029, FEFF, NEL, VT, FF, letters, digits, punctuation, entities amp/lt/gt/nbsp/#123/quot, escaped braces) up to 12 pieces; (c) child sequences of length 0-5 mixing text, {expr}, {}, {/* c */}, {...xs}, nested elements and fragments on element / <> / Fragment-tag / KeepAlive / custom-element hosts. Oracle: reference lowering through the standard JSX text rule; canonical children compared in order. Text made only of spaces/tabs without a line break: both 'kept' and 'dropped' accepted. non-trivial = text with whitespace adjacent to a child boundary or line break, or >=3 children of >=2 kinds; distinct by hash(source, options, env)".into()
    }
    fn assumptions(&self) -> Vec<String> {
        vec![
            "reference text rule = Babel's cleanJSXElementLiteralChild (js/ref.mjs cleanText), applied to the decoded text".into(),
            "a sole function / object-literal child of an element-like host is outside the domain (defined for component hosts only)".into(),
            "entities that decode to space/tab/line break (&#32; ...) are not generated (Babel and TypeScript disagree on them)".into(),
        ]
    }
    fn max_bytes(&self) -> usize {
        400
    }
    fn cases(&self, tier: Tier) -> u32 {
        match tier {
            Tier::Quick => 30_000,
            Tier::Thorough => 300_000,
        }
    }
    fn uses_node(&self) -> bool {
        true
    }
    fn exhaustive(&self, tier: Tier) -> Vec<(String, Vec<Case>)> {
        let max_len = if tier == Tier::Quick { 4 } else { 6 };
        let mut cases = vec![];
        let mut strings: Vec<String> = vec![String::new()];
        let mut frontier: Vec<String> = vec![String::new()];
        for _ in 0..max_len {
            let mut next = vec![];
            for s in &frontier {
                for a in SIGMA {
                    next.push(format!("{s}{a}"));
                }
            }
            strings.extend(next.iter().cloned());
            frontier = next;
        }
        for s in &strings {
            for pos in 0..3 {
                cases.push(text_case(s, pos));
            }
        }
        vec![(format!("jsx-text over 6 symbols, length<={max_len}, 3 positions"), cases)]
    }
    fn generate(&self, c: &mut Choices) -> Case {
        let cfg = SemCfg {
            rich_text: true,
            component_weight: 0,
            max_attrs: 1,
            max_children: 5,
            spreads: false,
            repeats: false,
            on_objects: false,
            ..SemCfg::default()
        };
        let sc = sem_case(c, cfg, false, 2, json!({}));
        let mut case = sc.case;
        // non-trivial: text with significant whitespace, or >=3 children of >=2 kinds
        let src = &case.source;
        let has_ws_text = src.contains("> ") || src.contains(" <") || src.contains("} ") || src.contains(" {")
            || src.contains('\n') || src.contains('\t') || src.contains('\u{a0}');
        case.nontrivial = has_ws_text || src.matches('{').count() >= 4;
        env_key(&mut case);
        case
    }
    fn check(&self, case: &Case, ctx: &mut Ctx) -> Verdict {
        judge_semantic(case, ctx)
    }
    fn builtin_cases(&self) -> Vec<Case> {
        ["foo ", " x", "&nbsp;x".replace("&nbsp;", "\u{a0}").as_str(), "a\rb", " a \n b ", "a \r\n\tb"]
            .iter()
            .flat_map(|t| (0..3).map(|p| text_case(t, p)).collect::<Vec<_>>())
            // `v-slots` on hosts whose children are not slots
            .chain([
                crate::props::semantic::misuse_case("<div v-slots={sl1}></div>", None, true),
                crate::props::semantic::misuse_case("<div v-slots={sl1} />", None, true),
                crate::props::semantic::misuse_case("<svg v-slots={{ named: () => 1 }}>{}</svg>", None, true),
            ])
            .collect()
    }
    fn required_labels(&self) -> Vec<&'static str> {
        vec![
            "host=html",
            "host=Fragment-tag",
            "host=fragment-short",
            "host=KeepAlive-bound",
            "host=KeepAlive-unbound",
            "host=custom-element",
            "spread-child",
            "ws-only-inline-text",
        ]
    }
}

// --------------------------------------------------------------------------------------------
pub struct C03;

/// The same JSX expression evaluated twice (the call child returns a different value each time),
/// slots rendered only after both evaluations: each vnode's `default` slot must deliver the value
/// of *its* evaluation.
fn reevaluation_case(c: &mut Choices) -> Case {
    let ctx = c.pick(8);
    let object_slots = c.chance(3, 4);
    let optimize = c.bool();
    reevaluation_fixed(ctx, object_slots, optimize)
}

fn reevaluation_fixed(ctx: usize, object_slots: bool, optimize: bool) -> Case {
    // 0-3: the temporary belongs to one evaluation; 4-7: it is shared (known finding D52)
    let (tpl, shared): (&str, bool) = match ctx {
        0 => ("export const thunk0 = () => @H@;", false),
        1 => ("export function thunk0() {\n  return @H@;\n}", false),
        2 => ("export const thunk0 = () => {\n  const r = @H@;\n  return [r];\n};", false),
        3 => ("export const thunk0 = () => {\n  const out = [];\n  for (const i of [1, 2]) {\n    out.push(@H@);\n  }\n  return out;\n};", false),
        4 => ("export const thunk0 = (a = @H@) => a;", true),
        5 => ("export function thunk0(a = @H@) {\n  return a;\n}", true),
        6 => ("class K {\n  f = @H@;\n}\nexport const thunk0 = () => new K().f;", true),
        _ => ("export const thunk0 = () => {\n  const out = [];\n  for (const i of [1, 2]) out.push(@H@);\n  return out;\n};", true),
    };
    let jsx = "<C1 id=\"re\">{seq1()}</C1>";
    let reference = "R.el(CFG, R.tag.val(C1), [[\"s\", \"id\", \"re\"]], { shape: \"call\", thunk: () => [[\"e\", seq1()]] })";
    let head = "import { C1, seq1 } from \"env\";\n";
    let main = format!("{head}{}\n", tpl.replace("@H@", jsx));
    let cfg = format!(
        "const CFG = {{ wsOnlyDrop: false, vslotsWrap: true, mergeProps: true, transformOn: false, objectSlots: {object_slots}, factory: null }};"
    );
    let refm = format!("{head}import {{ R }} from \"ref\";\n{cfg}\n{}\n", tpl.replace("@H@", reference));
    let opts = Opts {
        enable_object_slots: object_slots,
        optimize,
        ..Opts::default()
    };
    let mut case = Case::new(main, "jsx", Some(opts.json()));
    case.extra = json!({
        "kind": "re-evaluation",
        "shared_temporary": shared && object_slots,
        "env": {"bound": {"C1": {"k": "comp", "id": "C1"}, "seq1": {"k": "seqfn", "id": "seq1"}}, "globals": {}},
        "refs": [refm],
        "protocol": {"callThunks": true, "callThunksTwice": true},
    });
    case.label(if shared { "re-evaluation=shared-temporary-context" } else { "re-evaluation=own-temporary" });
    case.label(format!("re-evaluation-context={ctx}"));
    case.label(opts.label());
    case.nontrivial = true;
    case
}

impl Property for C03 {
    fn id(&self) -> &'static str {
        "C03"
    }
    fn rule(&self) -> String {
        "component hosts (bound / unbound / member) x child shapes {none, bound ident, unbound ident, call, arrow, function expression, object literal, text, element, mixed, spread child, member, conditional, literal} x run-time value kind of the identifier / call result {str, num, bool, null, undefined, array, slots object, vnode, function, plain object} x v-slots {absent, identifier, object literal} x enableObjectSlots x optimize x nesting (slots inside slots, JSX in attribute values); plus re-evaluation cases: a component with a call child whose value differs per call, evaluated twice in 8 contexts (arrow / function / block body / braced loop body: temporary of its own; parameter default of arrow and function, class field, loop body without braces: shared temporary = known finding D52), slots rendered only after both evaluations. Oracle: reference lowering with the statement's run-time rule; every slot function invoked by the canoniser and its result compared in order; creation and slot traces compared (a call child is evaluated exactly once). non-trivial = component host with children or v-slots; distinct by hash(source, options, env)".into()
    }
    fn assumptions(&self) -> Vec<String> {
        vec![
            "v-slots keys are kept disjoint from `default` and from an object-literal child's keys (override order unspecified)".into(),
            "parenthesised / TS-wrapped sole children are not generated (not stated whether they count as a single identifier)".into(),
        ]
    }
    fn max_bytes(&self) -> usize {
        400
    }
    fn cases(&self, tier: Tier) -> u32 {
        match tier {
            Tier::Quick => 25_000,
            Tier::Thorough => 300_000,
        }
    }
    fn uses_node(&self) -> bool {
        true
    }
    fn generate(&self, c: &mut Choices) -> Case {
        if c.chance(1, 12) {
            return reevaluation_case(c);
        }
        let cfg = SemCfg {
            component_weight: 8,
            vslots: true,
            max_attrs: 2,
            max_children: 3,
            on_objects: false,
            // child elements may carry directives / v-model (they are lowered to calls, which
            // must not be mistaken for written call children)
            directives: true,
            vmodel: true,
            vmodel_dynamic_arg: false,
            ..SemCfg::default()
        };
        let sc = sem_case(c, cfg, false, 2, json!({"trace": true}));
        let mut case = sc.case;
        // (directive values are evaluated in the `withDirectives` call, after the children: the
        // statements do not order them, so with directives each trace segment is compared as a multiset)
        let has_directive = case.labels.iter().any(|l| l.starts_with("directive") || l == "v-html" || l == "v-text" || l == "v-models" || l.starts_with("vmodel"));
        case.extra["compare_traces"] = json!(true);
        case.extra["traces_unordered"] = json!(has_directive);
        // classify shapes
        fn walk(n: &Node, labels: &mut Vec<String>, nontrivial: &mut bool) {
            match n {
                Node::Frag(ch) => kids(ch, labels, nontrivial),
                Node::El(e) => {
                    if e.tag.is_component() {
                        for drop in [false, true] {
                            WS_ONLY_DROP.with(|w| w.set(drop));
                            let sh = children_shape(&e.children);
                            let l = format!("shape={}", sh.as_str());
                            if !labels.contains(&l) {
                                labels.push(l);
                            }
                            let has_vs = e.attrs.iter().any(|a| matches!(a, Attr::VSlots(_)));
                            if sh != Shape::None || has_vs {
                                *nontrivial = true;
                            }
                            if has_vs {
                                let l = format!("v-slots+{}", sh.as_str());
                                if !labels.contains(&l) {
                                    labels.push(l);
                                }
                            }
                        }
                        WS_ONLY_DROP.with(|w| w.set(false));
                    }
                    for a in &e.attrs {
                        if let Attr::Expr { e, .. } = a {
                            ex(e, labels, nontrivial);
                        }
                    }
                    kids(&e.children, labels, nontrivial);
                }
            }
        }
        fn ex(e: &Ex, labels: &mut Vec<String>, nontrivial: &mut bool) {
            match e {
                Ex::Jsx(n) => walk(n, labels, nontrivial),
                Ex::Tpl { subs, .. } => subs.iter().for_each(|s| ex(s, labels, nontrivial)),
                _ => {}
            }
        }
        fn kids(ch: &[Child], labels: &mut Vec<String>, nontrivial: &mut bool) {
            for c in ch {
                match c {
                    Child::Node(n) => walk(n, labels, nontrivial),
                    Child::Expr(e) => ex(e, labels, nontrivial),
                    _ => {}
                }
            }
        }
        let mut labels = vec![];
        let mut nt = false;
        for (_, n) in &sc.stmts {
            walk(n, &mut labels, &mut nt);
        }
        for l in labels {
            case.label(l);
        }
        for (name, kind) in &sc.value_kinds {
            if name == "x" || name == "f1()" || name == "u1" {
                case.label(format!("value:{name}={kind}"));
            }
        }
        case.nontrivial = nt;
        env_key(&mut case);
        case
    }
    fn check(&self, case: &Case, ctx: &mut Ctx) -> Verdict {
        if case.extra["kind"] == "re-evaluation" {
            let v = judge_semantic_for(case, ctx, "C03");
            // D52: where the temporary of a call child is shared by several evaluations (parameter
            // default, class field, loop body without a block) every default slot returns the last
            // value; the contexts with a temporary of their own must hold
            if case.extra["shared_temporary"] == true {
                return match v {
                    // exactly the listed failure: a slot of an earlier evaluation returns the
                    // value of a later one (`seq1#1` expected, `seq1#2..` observed)
                    Verdict::Violation { ref detail, .. }
                        if ctx.findings.known("D52", "C03")
                            && detail["expected_there"].as_str().map(|s| s.starts_with("seq1#")).unwrap_or(false)
                            && detail["observed_there"].as_str().map(|s| s.starts_with("seq1#")).unwrap_or(false) =>
                    {
                        Verdict::Known("D52".into())
                    }
                    other => other,
                };
            }
            return v;
        }
        judge_semantic(case, ctx)
    }
    fn builtin_cases(&self) -> Vec<Case> {
        // the known shapes of D52 are probed on every run
        (0..4).map(|k| reevaluation_fixed(4 + k, true, false)).collect()
    }
    fn required_labels(&self) -> Vec<&'static str> {
        vec![
            "re-evaluation=own-temporary",
            "shape=none", "shape=ident", "shape=call", "shape=fn", "shape=obj", "shape=many",
            "v-slots+none", "v-slots+ident", "v-slots+call", "v-slots+fn", "v-slots+obj", "v-slots+many",
            "value:x=vnode", "value:x=slotsobj", "value:x=fn", "value:x=arr", "value:x=str",
            "value:f1()=slotsobj", "value:f1()=fn", "value:f1()=vnode",
            "host=bound-component", "host=member-component", "host=unbound-component",
        ]
    }
}

// --------------------------------------------------------------------------------------------
pub struct C04;

impl Property for C04 {
    fn id(&self) -> &'static str {
        "C04"
    }
    fn rule(&self) -> String {
        "elements carrying 1-3 directive attributes among other attributes and children: spellings v-kebab, v-two-words, vCamel, vTwoWords, v-x:arg, 0-3 _mod suffixes (with and without :arg); value shapes {e}, {[v]}, {[v, arg]} (static / dynamic), {[v, [mods]]}, {[v, arg, [mods]]} (incl. non-identifier modifier strings), absent; v-show; v-html / v-text with expression, array form and string literal; element and component hosts; all options. Oracle: reference lowering -> expected withDirectives bindings {dir (vShow or runtime resolution under the written name minus prefix, first letter lower-cased), value, arg, modifiers} and innerHTML / textContent props; other props and children must equal the same element's reference without interference. non-trivial = directive with argument, modifier, array form or camel spelling, or next to >=1 other attribute; distinct by hash(source, options, env)".into()
    }
    fn assumptions(&self) -> Vec<String> {
        vec![
            "an argument or modifier list given twice (v-x:arg plus array element; _m suffixes plus array list) is not generated: the statement does not rank the two sources".into(),
            "absent argument == undefined == void 0; absent modifiers == {}".into(),
        ]
    }
    fn max_bytes(&self) -> usize {
        400
    }
    fn cases(&self, tier: Tier) -> u32 {
        match tier {
            Tier::Quick => 25_000,
            Tier::Thorough => 300_000,
        }
    }
    fn uses_node(&self) -> bool {
        true
    }
    fn generate(&self, c: &mut Choices) -> Case {
        let cfg = SemCfg {
            directives: true,
            html_text: true,
            max_attrs: 5,
            max_children: 2,
            max_depth: 1,
            ..SemCfg::default()
        };
        let sc = sem_case(c, cfg, false, 2, json!({}));
        let mut case = sc.case;
        case.nontrivial = case.labels.iter().any(|l| {
            l.starts_with("directive-") && l != "directive-kebab" || l == "v-html" || l == "v-text"
        }) || (case.labels.iter().any(|l| l == "directive-kebab") && case.source.matches('=').count() > 3);
        env_key(&mut case);
        case
    }
    fn check(&self, case: &Case, ctx: &mut Ctx) -> Verdict {
        judge_semantic(case, ctx)
    }
    fn required_labels(&self) -> Vec<&'static str> {
        vec![
            "directive-kebab",
            "directive-camel",
            "directive-ns-arg",
            "directive-suffix-mods",
            "directive-array-arg",
            "directive-array-mods",
            "directive-array-arg-mods",
            "directive-valueless",
            "v-html",
            "v-text",
        ]
    }
}

// --------------------------------------------------------------------------------------------
pub struct C05;

impl Property for C05 {
    fn id(&self) -> &'static str {
        "C05"
    }
    fn rule(&self) -> String {
        "hosts: input with static type checkbox/radio/text/number, type={\"checkbox\"|\"radio\"}, type={expr}, no type; select; textarea; other elements; components (bound/member/unbound). Targets: let identifier, o.p, o[k], arr[0], o.deep.q. Component argument forms: none, v-model:arg, [v, \"arg\"], [v, dyn]. Modifier forms: _m suffix, array list. v-models lists of 1-3 entries; neighbouring attributes, spreads; mergeProps / optimize on and off. Oracle: (1) reference lowering for directive binding / props; (2) round trip: every onUpdate:* listener on every created vnode is called with a fresh sentinel and all targets are read back after each call - must equal the reference's read-back (only the bound target changes, to the sentinel) and the listener key must be onUpdate:<run-time name>; (3) v-models == the same-order sequence of v-model entries (the reference expands it). non-trivial = every case with a v-model (a listener is fired); distinct by hash(source, options, env)".into()
    }
    fn assumptions(&self) -> Vec<String> {
        vec![
            "arguments on native element hosts are not generated (the element clause has none)".into(),
            "hosts other than input/select/textarea, and type={\"literal\"}: any model directive valid for the host at run time is accepted".into(),
            "one binding per argument name per element (duplicate prop keys are unspecified)".into(),
        ]
    }
    fn max_bytes(&self) -> usize {
        400
    }
    fn cases(&self, tier: Tier) -> u32 {
        match tier {
            Tier::Quick => 25_000,
            Tier::Thorough => 250_000,
        }
    }
    fn uses_node(&self) -> bool {
        true
    }
    fn generate(&self, c: &mut Choices) -> Case {
        let tsx = c.chance(1, 6);
        let cfg = SemCfg {
            vmodel: true,
            vmodels: true,
            max_attrs: 4,
            max_children: 1,
            // (depth 2: attribute values may be JSX elements, next to v-model / v-models)
            max_depth: 2,
            on_objects: false,
            component_weight: 5,
            tsx,
            ..SemCfg::default()
        };
        let sc = sem_case(c, cfg, false, 2, json!({"fireListeners": true}));
        let mut case = sc.case;
        if tsx {
            // (evaluated after the harness erased the TS syntax)
            case.lang = "tsx".into();
            case.label("lang=tsx");
        }
        case.nontrivial = case.labels.iter().any(|l| l.starts_with("vmodel-"));
        env_key(&mut case);
        case
    }
    fn check(&self, case: &Case, ctx: &mut Ctx) -> Verdict {
        judge_semantic_for(case, ctx, "C05")
    }
    fn required_labels(&self) -> Vec<&'static str> {
        vec![
            "vmodel-component",
            "vmodel-element",
            "vmodel-ns-arg",
            "vmodel-static-arg",
            "vmodel-dynamic-arg",
            "vmodel-suffix-mods",
            "vmodel-array-mods",
            "v-models",
            "input-type-attr",
        ]
    }
}

// --------------------------------------------------------------------------------------------
pub struct C11;

impl Property for C11 {
    fn id(&self) -> &'static str {
        "C11"
    }
    fn rule(&self) -> String {
        "C01/C03/C04/C05 shapes whose embedded expressions are logging leaves t(k) (a global tracer that appends to a per-evaluation trace and returns a per-k value of random kind), 2-10 per case, in attribute values, spread arguments, children, spread children, directive values/arguments, on/nativeOn objects, v-html/v-text values; element and component hosts; all option combinations; slots invoked twice by the canoniser. Oracle: the reference program evaluates its entries left to right by construction; creation trace and per-export / per-slot-invocation traces of the output must equal the reference's (each leaf exactly once per evaluation, attributes and spreads in source order and before children, children in source order, component children only inside - and on every - slot invocation). Directive value/argument leaves are compared as a multiset per trace segment (the statement does not order them). A mergeable name repeats only while no other leaf intervenes, so 'position of first occurrence' and 'source order' coincide. non-trivial = >=2 ordered leaves or a component with >=1 child leaf; distinct by hash(source, options, env)".into()
    }
    fn assumptions(&self) -> Vec<String> {
        vec![
            "v-model targets are bare identifiers (the statement exempts them); a computed v-model argument is a leaf `ta(k)` whose run of up to three consecutive evaluations (once per generated prop key) counts as one".into(),
            "bare identifiers and literals are not observable (statement: 'anything but a bare identifier or literal')".into(),
        ]
    }
    fn max_bytes(&self) -> usize {
        400
    }
    fn cases(&self, tier: Tier) -> u32 {
        match tier {
            Tier::Quick => 25_000,
            Tier::Thorough => 250_000,
        }
    }
    fn uses_node(&self) -> bool {
        true
    }
    fn generate(&self, c: &mut Choices) -> Case {
        let cfg = SemCfg {
            logging: true,
            directives: true,
            html_text: true,
            vmodel: true,
            vslots: true,
            max_attrs: 5,
            max_children: 3,
            max_depth: 2,
            component_weight: 5,
            ..SemCfg::default()
        };
        let sc = sem_case(c, cfg, false, 2, json!({"trace": true, "slotCalls": 2}));
        let mut case = sc.case;
        case.extra["compare_traces"] = json!(true);
        case.extra["unordered_leaves"] = json!(sc.unordered_leaves);
        case.extra["multi_leaves"] = json!(sc.multi_leaves);
        case.extra["traces_only"] = json!(true);
        let ordered = sc.n_exprs.saturating_sub(sc.unordered_leaves.len());
        case.nontrivial = ordered >= 2;
        case.label(format!("leaves={}", sc.n_exprs.min(8)));
        env_key(&mut case);
        case
    }
    fn check(&self, case: &Case, ctx: &mut Ctx) -> Verdict {
        judge_semantic_for(case, ctx, "C11")
    }
    fn builtin_cases(&self) -> Vec<Case> {
        use crate::props::semantic::misuse_case;
        vec![
            // a `v-slots` value on a host whose children are not slots
            misuse_case("<div v-slots={t(1)}>txt</div>", Some("t(1)"), false),
            misuse_case("<KeepAlive v-slots={t(1)}>{x}</KeepAlive>", Some("t(1)"), false),
            misuse_case("<><div v-slots={t(1)}><i /></div></>", Some("t(1)"), false),
            // a second `v-slots`
            misuse_case("<C1 v-slots={t(1)} v-slots={t(2)}>txt</C1>", Some("t(1)"), false),
            misuse_case("<C1 v-slots={t(1)} v-slots>txt</C1>", Some("t(1)"), false),
            // entries of `v-models` that are not array literals
            misuse_case("<C1 v-models={[[m, \"a\"], t(1)]} />", Some("t(1)"), false),
            misuse_case("<C1 v-models={[...t(1), [m, \"a\"]]} />", Some("t(1)"), false),
        ]
    }
    fn required_labels(&self) -> Vec<&'static str> {
        vec![
            "spread",
            "on-object",
            "spread-child",
            "host=bound-component",
            "host=html",
            "repeated-class",
            "repeated-listener",
            "directive-kebab",
        ]
    }
}

// --------------------------------------------------------------------------------------------
pub struct C12;

impl Property for C12 {
    fn id(&self) -> &'static str {
        "C12"
    }
    fn rule(&self) -> String {
        "every shape the C01-C05 generators produce (attributes, spreads, repeated names, on objects, directives, v-html/v-text, v-model(s), v-slots, nested component trees, all hosts) under every setting of the other options; each module is transformed twice, optimize=true and optimize=false, both outputs are evaluated in node against the same env (slots invoked, v-model listeners fired) and their canonical export values compared with patchFlag / dynamicProps / `_` erased; additionally the two raw output ASTs are compared in lock step and may differ only by a numeric 4th / string-list 5th argument of a 3-argument call and by a trailing `_: <number>` property of an object literal; every fifth case also contains a variable reassigned to a component that uses it as its sole child (capture path). non-trivial = the two printed outputs differ (the flag did something); distinct by hash(source, options, env)".into()
    }
    fn assumptions(&self) -> Vec<String> {
        vec!["hints = arguments 4-5 of vnode calls and the `_` key of slot objects (erased by the canoniser)".into()]
    }
    fn max_bytes(&self) -> usize {
        500
    }
    fn cases(&self, tier: Tier) -> u32 {
        match tier {
            Tier::Quick => 25_000,
            Tier::Thorough => 300_000,
        }
    }
    fn uses_node(&self) -> bool {
        true
    }
    fn generate(&self, c: &mut Choices) -> Case {
        let cfg = SemCfg {
            directives: true,
            html_text: true,
            vmodel: true,
            vmodels: true,
            vslots: true,
            max_attrs: 5,
            max_children: 3,
            max_depth: 3,
            component_weight: 5,
            ..SemCfg::default()
        };
        let sc = sem_case(c, cfg, true, 3, json!({"fireListeners": true, "callThunks": true}));
        let mut case = sc.case;
        let mut on = sc.opts.clone();
        on.optimize = true;
        let mut off = sc.opts.clone();
        off.optimize = false;
        case.options = Some(on.json());
        case.extra["options_off"] = json!(off.json());
        case.extra["refs"] = json!([]);
        if c.chance(1, 5) {
            // a variable reassigned to a component that uses it as its sole child (the capture
            // path); whatever it evaluates to, it must be the same under both settings
            let at = case.source.find("export const __read").unwrap_or(case.source.len());
            case.source.insert_str(
                at,
                "export const thunkR = () => {\n  let rv = x;\n  rv = y;\n  rv = <C1>{rv}</C1>;\n  return rv;\n};\n",
            );
            case.label("reassigned-variable-as-sole-child");
        }
        case.nontrivial = true; // refined by the judge (outputs differ)
        env_key(&mut case);
        case
    }
    fn check(&self, case: &Case, _ctx: &mut Ctx) -> Verdict {
        let ctx = _ctx;
        let mut off_case = case.clone();
        off_case.options = case.extra["options_off"].as_str().map(|s| s.to_string());
        let a = match crate::props::semantic::transform_for_eval(case) {
            Ok(t) => t,
            Err(v) => return v,
        };
        let b = match crate::props::semantic::transform_for_eval(&off_case) {
            Ok(t) => t,
            Err(v) => return v,
        };
        if a.diags != b.diags {
            return Verdict::Violation {
                kind: "diagnostics-differ".into(),
                detail: json!({"on": a.diags, "off": b.diags}),
            };
        }
        if a.code == b.code {
            return Verdict::Discard("optimize-had-no-effect".into());
        }
        // structural: the two output ASTs differ only at hint positions
        {
            use crate::driver::{module_json, with_transform, Lang};
            let lang = Lang::from_str(&case.lang);
            let ja = with_transform(&case.source, lang, case.options.as_deref(), |t| t.raw.as_ref().map(module_json));
            let jb = with_transform(&off_case.source, lang, off_case.options.as_deref(), |t| t.raw.as_ref().map(module_json));
            if let (Ok(Some(ja)), Ok(Some(jb))) = (ja, jb) {
                if let Err(e) = crate::astcmp::only_hints_differ(&ja["body"], &jb["body"], "$body") {
                    return Verdict::Violation {
                        kind: "outputs-differ-outside-hint-positions".into(),
                        detail: json!({"where": e, "optimize_true": a.code, "optimize_false": b.code}),
                    };
                }
            }
        }
        let results = match crate::props::semantic::node_eval(
            ctx,
            vec![("main", a.code.as_str()), ("ref0", b.code.as_str())],
            &case.extra["env"],
            &case.extra["protocol"],
            None,
        ) {
            Ok(r) => r,
            Err(v) => return v,
        };
        match crate::props::semantic::compare_to_refs(&results, 1, &["error", "exports", "fired"]) {
            Ok(()) => Verdict::Pass,
            Err(info) => Verdict::Violation {
                kind: "optimize-changes-rendering".into(),
                detail: json!({"info": info, "optimize_true": a.code, "optimize_false": b.code,
                    "main": results["main"], "off": results["ref0"]}),
            },
        }
    }
    fn required_labels(&self) -> Vec<&'static str> {
        vec!["spread", "v-slots", "vmodel-component", "directive-kebab", "host=bound-component", "reassigned-variable-as-sole-child"]
    }
}
