//! C14 - options have their documented defaults and only their documented effect.

use serde_json::json;

use crate::choices::Choices;
use crate::driver::{parse_options, summarize, Lang};
use crate::gen::grammar::{Knobs, G};
use crate::gen::opts::{any_opts, Opts};
use crate::runner::{Case, Ctx, Property, Tier, Verdict};

pub struct C14;

const PROBE_JSX: &str = "import { C, x, o, p, f } from \"env\";\nexport const a = <div on={o} class=\"a\" class={x} {...p} id=\"i\"><C>{x}</C><C>{f()}</C><i-x a=\"1\"><my-el /></i-x><>t</></div>;\nexport const b = <C v-model={[x.y, \"arg\", [\"m\"]]} onClick={f} />;\n";
const PROBE_TSX: &str = "import { defineComponent } from \"vue\";\nimport { C, x } from \"env\";\ninterface P { a: string; b?: number }\nexport const K = defineComponent((props: P, ctx: SetupContext<{ (e: \"ev\"): void }>) => () => <C on={x}>{x}</C>);\n";

fn expected_from(cfg: &serde_json::Value) -> Opts {
    // documented defaults for absent keys
    let mut o = Opts::default();
    if let Some(v) = cfg.get("transformOn").and_then(|v| v.as_bool()) {
        o.transform_on = v;
    }
    if let Some(v) = cfg.get("optimize").and_then(|v| v.as_bool()) {
        o.optimize = v;
    }
    if let Some(v) = cfg.get("mergeProps").and_then(|v| v.as_bool()) {
        o.merge_props = v;
    }
    if let Some(v) = cfg.get("enableObjectSlots").and_then(|v| v.as_bool()) {
        o.enable_object_slots = v;
    }
    if let Some(v) = cfg.get("resolveType").and_then(|v| v.as_bool()) {
        o.resolve_type = v;
    }
    if let Some(v) = cfg.get("pragma").and_then(|v| v.as_str()) {
        o.pragma = Some(v.to_string());
    }
    if let Some(v) = cfg.get("customElementPatterns").and_then(|v| v.as_array()) {
        o.patterns = v.iter().filter_map(|s| s.as_str().map(|s| s.to_string())).collect();
    }
    o
}

/// render a config (ordered key list) as JSON text in a given spelling
fn render(entries: &[(String, String)], spelling: usize) -> String {
    let mut es: Vec<(String, String)> = entries.to_vec();
    if spelling & 1 != 0 {
        es.reverse();
    }
    let (sep, colon, open, close) = if spelling & 2 != 0 {
        (" ,\n  ", " : ", "{\n  ", "\n}\n")
    } else {
        (",", ":", "{", "}")
    };
    let body: Vec<String> = es.iter().map(|(k, v)| format!("\"{k}\"{colon}{v}")).collect();
    format!("{open}{}{close}", body.join(sep))
}

fn lattice_case(entries: Vec<(String, String)>, spelling: usize, extra_unknown: bool) -> Case {
    let mut es = entries.clone();
    if extra_unknown {
        es.insert(0, ("unknownKey".into(), "{\"nested\":[1,2]}".into()));
        es.push(("transform_on".into(), "true".into()));
        es.push(("merge_props".into(), "false".into()));
        es.push(("isCustomElement".into(), "null".into()));
    }
    let text = render(&es, spelling);
    let canon: serde_json::Value =
        serde_json::from_str(&render(&entries, 0)).expect("lattice json");
    let mut c = Case::new(String::new(), "jsx", Some(text));
    c.extra = json!({"kind": "lattice", "expected": canon});
    c.label("lattice");
    if extra_unknown {
        c.label("unknown-keys");
    }
    c.nontrivial = !entries.is_empty();
    c
}

fn check_lattice(case: &Case) -> Verdict {
    let text = case.options.as_deref().unwrap();
    let exp = expected_from(&case.extra["expected"]);
    let got = match parse_options(text) {
        Ok(o) => o,
        Err(e) => {
            return Verdict::Violation {
                kind: "valid-config-rejected".into(),
                detail: json!({"config": text, "error": e}),
            }
        }
    };
    let pats: Vec<String> = got.custom_element_patterns.iter().map(|r| r.as_str().to_string()).collect();
    let fields_ok = got.transform_on == exp.transform_on
        && got.optimize == exp.optimize
        && got.merge_props == exp.merge_props
        && got.enable_object_slots == exp.enable_object_slots
        && got.resolve_type == exp.resolve_type
        && got.pragma == exp.pragma
        && pats == exp.patterns;
    if !fields_ok {
        return Verdict::Violation {
            kind: "option-value-not-as-documented".into(),
            detail: json!({"config": text, "expected": exp.json(), "got": format!("{got:?}")}),
        };
    }
    // behaviour: same output as the fully explicit canonical spelling
    for (src, lang) in [(PROBE_JSX, Lang::Jsx), (PROBE_TSX, Lang::Tsx)] {
        let a = summarize(src, lang, Some(text));
        let b = summarize(src, lang, Some(&exp.json()));
        if a != b {
            return Verdict::Violation {
                kind: "absent-key-differs-from-default".into(),
                detail: json!({"config": text, "explicit": exp.json(), "a": a, "b": b}),
            };
        }
    }
    Verdict::Pass
}

pub fn features_case(c: &mut Choices) -> Case {
    let tsx = c.chance(1, 3);
    let base = any_opts(c, true, tsx);
    let knobs = Knobs {
        tsx,
        unusual: false,
        ..Knobs::default()
    };
    let mut g = G::new(c, knobs);
    let src = g.module();
    let f = g.f.clone();
    // options this module has no feature for
    let mut cands: Vec<&str> = vec![];
    if !f.on_attr {
        cands.push("transformOn");
    }
    // an `on` / `nativeOn` object is lowered like a spread when transformOn is on, so it counts
    // as a spread for mergeProps
    if !f.spread_or_repeat && !f.on_attr {
        cands.push("mergeProps");
    }
    if !f.sole_ident_or_call_child {
        cands.push("enableObjectSlots");
    }
    if !f.custom_tag {
        cands.push("customElementPatterns");
    }
    if !f.define_component {
        cands.push("resolveType");
    }
    let mut case = Case::new(src, if tsx { "tsx" } else { "jsx" }, Some(base.json()));
    if cands.is_empty() {
        case.extra = json!({"kind": "pair", "option": null});
        case.label("uses-every-feature");
        return case;
    }
    let opt = cands[g.c.pick(cands.len())];
    let mut on = base.clone();
    let mut off = base.clone();
    match opt {
        "transformOn" => {
            on.transform_on = true;
            off.transform_on = false;
        }
        "mergeProps" => {
            on.merge_props = true;
            off.merge_props = false;
        }
        "enableObjectSlots" => {
            on.enable_object_slots = true;
            off.enable_object_slots = false;
        }
        "customElementPatterns" => {
            on.patterns = vec!["^i-".into(), "el".into(), "^my-".into(), "^Ion".into()];
            off.patterns = vec![];
        }
        _ => {
            on.resolve_type = true;
            off.resolve_type = false;
        }
    }
    case.options = Some(on.json());
    case.extra = json!({"kind": "pair", "option": opt, "off": off.json()});
    case.label(format!("pair={opt}"));
    case.label(format!("lang={}", case.lang));
    if f.jsx > 0 {
        case.label("has-jsx");
    }
    for (used, name) in [
        (f.on_attr, "uses=on"),
        (f.spread_or_repeat, "uses=spread-or-repeat"),
        (f.sole_ident_or_call_child, "uses=sole-ident-or-call-child"),
        (f.custom_tag, "uses=custom-tag"),
        (f.define_component, "uses=defineComponent"),
    ] {
        if used {
            case.label(name);
        }
    }
    case.nontrivial = f.jsx > 0
        && (f.on_attr || f.spread_or_repeat || f.sole_ident_or_call_child || f.custom_tag || f.define_component || f.directive);
    case
}

pub fn check_pair(case: &Case) -> Verdict {
    let Some(opt) = case.extra["option"].as_str() else {
        return Verdict::Discard("module-uses-every-feature".into());
    };
    let lang = Lang::from_str(&case.lang);
    let a = summarize(&case.source, lang, case.options.as_deref());
    if a.rejected.is_some() {
        return Verdict::Discard("parser-rejected".into());
    }
    let b = summarize(&case.source, lang, case.extra["off"].as_str());
    if a.panicked.is_some() || b.panicked.is_some() {
        return Verdict::Discard("visitor-panicked(C08)".into());
    }
    if a != b {
        return Verdict::Violation {
            kind: format!("option-{opt}-affects-module-without-its-feature"),
            detail: json!({"option": opt, "on": a, "off": b}),
        };
    }
    Verdict::Pass
}

impl Property for C14 {
    fn id(&self) -> &'static str {
        "C14"
    }
    fn rule(&self) -> String {
        "(a) exhaustive option lattice as JSON text: each of the five boolean keys absent / true / false (3^5), pragma absent / \"h\" / null, customElementPatterns absent / [] / one / two valid patterns, in four spellings (key order reversed, whitespace varied) and with unknown keys, snake_case look-alikes and isCustomElement added: must deserialise, public fields must equal the documented value (absent = documented default), and the printed outputs + diagnostics on two probe modules (JSX and TSX, exercising every option) must be byte-identical to those under the fully explicit configuration; `{}` == no configuration; invalid patterns must be rejected at deserialisation. (b) non-interference: gen::grammar modules labelled by construction with the features they use; for an option whose feature the module lacks (transformOn / no on|nativeOn attribute; mergeProps / no spread, repeated or directive-synthesised attribute name; enableObjectSlots / no component-like tag whose sole effective child is an expression; customElementPatterns / no tag any pool pattern could match; resolveType / no `defineComponent` binding from vue) the outputs with the option on and off (other options random) must be byte-identical. non-trivial = lattice config with >=1 key, or a module that uses >=1 other feature; distinct by hash(source, options)".into()
    }
    fn assumptions(&self) -> Vec<String> {
        vec![
            "the plugin entry's `serde_json::from_str(json)` / `unwrap_or_default()` is reproduced by the driver (no WASM runtime offline)".into(),
            "feature labels are conservative (a module is only paired with an option when it certainly lacks the feature)".into(),
        ]
    }
    fn max_bytes(&self) -> usize {
        600
    }
    fn cases(&self, tier: Tier) -> u32 {
        match tier {
            Tier::Quick => 25_000,
            Tier::Thorough => 400_000,
        }
    }
    fn exhaustive(&self, _tier: Tier) -> Vec<(String, Vec<Case>)> {
        let bools = ["transformOn", "optimize", "mergeProps", "enableObjectSlots", "resolveType"];
        let mut cases = vec![];
        let mut n = 0usize;
        for mask in 0..243usize {
            for pragma in 0..3 {
                for pats in 0..4 {
                    let mut entries: Vec<(String, String)> = vec![];
                    let mut m = mask;
                    for b in bools {
                        match m % 3 {
                            1 => entries.push((b.into(), "true".into())),
                            2 => entries.push((b.into(), "false".into())),
                            _ => {}
                        }
                        m /= 3;
                    }
                    match pragma {
                        1 => entries.push(("pragma".into(), "\"h\"".into())),
                        2 => entries.push(("pragma".into(), "null".into())),
                        _ => {}
                    }
                    match pats {
                        1 => entries.push(("customElementPatterns".into(), "[]".into())),
                        2 => entries.push(("customElementPatterns".into(), "[\"^i-\"]".into())),
                        3 => entries.push(("customElementPatterns".into(), "[\"^i-\", \"el$\"]".into())),
                        _ => {}
                    }
                    n += 1;
                    // every config in one spelling; a rotating second spelling and unknown keys
                    cases.push(lattice_case(entries.clone(), n % 4, false));
                    if n % 3 == 0 {
                        cases.push(lattice_case(entries.clone(), (n / 3) % 4, true));
                    }
                }
            }
        }
        vec![("option lattice 3^5 x 3 x 4 as JSON text".into(), cases)]
    }
    fn builtin_cases(&self) -> Vec<Case> {
        let mut v = vec![];
        // `{}` == no configuration
        let mut c = Case::new(String::new(), "jsx", None);
        c.extra = json!({"kind": "none-vs-empty"});
        c.label("none-vs-empty");
        c.nontrivial = true;
        v.push(c);
        for bad in ["(", "[a", "*", "a{2,1}", "(?P<n>", "\\\\"] {
            let mut c = Case::new(
                String::new(),
                "jsx",
                Some(format!("{{\"customElementPatterns\":[\"^ok\",\"{bad}\"]}}")),
            );
            c.extra = json!({"kind": "invalid-pattern"});
            c.label("invalid-pattern");
            c.nontrivial = true;
            v.push(c);
        }
        v
    }
    fn generate(&self, c: &mut Choices) -> Case {
        features_case(c)
    }
    fn check(&self, case: &Case, _ctx: &mut Ctx) -> Verdict {
        match case.extra["kind"].as_str() {
            Some("lattice") => check_lattice(case),
            Some("none-vs-empty") => {
                for (src, lang) in [(PROBE_JSX, Lang::Jsx), (PROBE_TSX, Lang::Tsx)] {
                    let a = summarize(src, lang, None);
                    let b = summarize(src, lang, Some("{}"));
                    let c = summarize(src, lang, Some(&Opts::default().json()));
                    if a != b || a != c {
                        return Verdict::Violation {
                            kind: "empty-config-differs-from-no-config-or-documented-defaults".into(),
                            detail: json!({"none": a, "empty": b, "documented": c}),
                        };
                    }
                }
                Verdict::Pass
            }
            Some("invalid-pattern") => match parse_options(case.options.as_deref().unwrap()) {
                Err(_) => Verdict::Pass,
                Ok(o) => Verdict::Violation {
                    kind: "invalid-pattern-accepted".into(),
                    detail: json!({"config": case.options, "options": format!("{o:?}")}),
                },
            },
            Some("ill-typed") => match parse_options(case.options.as_deref().unwrap()) {
                Err(_) => Verdict::Pass,
                Ok(o) => Verdict::Violation {
                    kind: "ill-typed-config-accepted".into(),
                    detail: json!({"config": case.options, "options": format!("{o:?}")}),
                },
            },
            _ => check_pair(case),
        }
    }
    fn extra_stage(
        &self,
        ctx: &mut Ctx,
        stats: &mut crate::runner::Stats,
    ) -> Result<Option<crate::runner::Violation>, String> {
        if ctx.tier != Tier::Thorough {
            return Ok(None);
        }
        crate::fuzzstage::fuzz_stage("C14", ctx, stats, 180, false)
    }
    fn required_labels(&self) -> Vec<&'static str> {
        vec![
            "lattice",
            "unknown-keys",
            "invalid-pattern",
            "none-vs-empty",
            "pair=transformOn",
            "pair=mergeProps",
            "pair=enableObjectSlots",
            "pair=customElementPatterns",
            "pair=resolveType",
        ]
    }
}
