//! C06 - every name the transform introduces is bound, in scope, initialised, hygienic, used.
//! C10 - a JSX expression's lowering does not depend on unrelated code around it.

use serde_json::{json, Value};

use crate::choices::Choices;
use crate::driver::{free_vars, free_vars_of_code, generated_ident_counts, with_transform, Lang};
use crate::gen::ctx::{fill, sibling, CONTEXTS};
use crate::gen::jsx::*;
use crate::gen::opts::any_opts;
use crate::gen::sem::{Item, Sem, SemCfg};
use crate::props::semantic::{compare_to_refs, judge_semantic_for, node_eval, transform_for_eval};
use crate::runner::{Case, Ctx, Property, Tier, Verdict};

pub struct C06;

fn site_cfg() -> SemCfg {
    SemCfg {
        directives: true,
        html_text: true,
        vmodel: true,
        vslots: true,
        max_attrs: 3,
        max_children: 2,
        max_depth: 2,
        component_weight: 6,
        colliding: true,
        // D10 (known, C05) is excluded by construction here: C06 compares values only to detect capture
        vmodel_dynamic_arg: false,
        ..SemCfg::default()
    }
}

/// a node that certainly needs a temporary / helper
fn needy_node(g: &mut Sem) -> Node {
    let tag = Tag::Bound(g.c.choose(&["C1", "C2"]).to_string());
    let child = match g.c.pick(4) {
        0 => Child::Expr(Ex::src("f1()", Cat::Call)),
        1 => Child::Expr(Ex::src("x", Cat::IdentBound)),
        2 => Child::Expr(Ex::src("o1.m()", Cat::Call)),
        _ => Child::Expr(Ex::src("f2(y)", Cat::Call)),
    };
    g.label("needs-temporary-or-helper");
    let attrs = g.attrs(&tag, 1);
    Node::El(Element {
        tag,
        attrs,
        children: vec![child],
        self_closing: false,
    })
}

fn gen_c06(c: &mut Choices) -> Case {
    let opts = any_opts(c, true, false);
    let mut g = Sem::new(c, site_cfg(), opts.clone());
    let n_sites = g.c.range(1, 5);
    let mut items: Vec<Item> = vec![];
    let mut contexts_used = vec![];
    let mut non_module_needy = false;
    for n in 0..n_sites {
        if g.c.chance(1, 2) {
            items.push(Item::Raw(sibling(g.c, n)));
        }
        let ctx = &CONTEXTS[g.c.pick(CONTEXTS.len())];
        let needy = g.c.chance(1, 2);
        let mut node = if needy { needy_node(&mut g) } else { g.node(0) };
        // history: an assignment to a *local* of another scope that is named like this site's sole
        // identifier child arms the "captured copy of a reassigned variable" path; the copy then
        // captures the (immutable) imported binding, which is harmless and not the D11 shape
        if needy && g.c.chance(1, 4) {
            g.label("captured-copy-armed-by-other-scope-assignment");
            let name = g.c.choose(&["x", "y"]);
            items.push(Item::Raw(format!(
                "function dza{n}() {{\n  let {name};\n  {name} = 1;\n  return {name};\n}}"
            )));
            if let Node::El(e) = &mut node {
                e.children = vec![Child::Expr(Ex::src(name, Cat::IdentBound))];
            }
        }
        if needy && ctx.label != "module" {
            non_module_needy = true;
        }
        // a user's local spelled like the generated temporary, assigned in another scope: the
        // temporary of a later call child is a different binding and must not be "captured"
        if needy && g.c.chance(1, 8) {
            g.label("user-local-spelled-like-the-temporary-assigned-elsewhere");
            let nm = g.c.choose(&["_slot", "_slot2", "_x"]);
            items.push(Item::Raw(format!(
                "function dzs{n}() {{\n  let {nm};\n  {nm} = 1;\n  return {nm};\n}}"
            )));
            if let Node::El(e) = &mut node {
                e.children = vec![Child::Expr(Ex::src("f1()", Cat::Call))];
            }
        }
        // the same history, but the sole child is a *parameter* of the enclosing function that is
        // named like the local assigned elsewhere: the captured copy must read the parameter
        // (declared inside the function body, after the parameters - no TDZ, not the D11 shape)
        if needy && g.c.chance(1, 8) {
            g.label("captured-copy-of-a-parameter-named-like-an-assigned-local");
            items.push(Item::Raw(format!(
                "function dzp{n}() {{\n  let pz;\n  pz = 1;\n  return pz;\n}}"
            )));
            if let Node::El(e) = &mut node {
                e.children = vec![Child::Expr(Ex::src("pz", Cat::IdentBound))];
            }
            // the parameter itself is (re)assigned its own value, so that a copy captured at the
            // head of the body is not stale (a changing value / a `const pz` in the body would
            // be the known D11 shape)
            let tpl = match g.c.pick(7) {
                // a nested statement list after the site: the pending copy belongs to the
                // function body, not to the block
                5 => format!("export function thunk{n}(pz = y) {{\n  pz = pz;\n  const r = @H@;\n  if (b1) {{\n    f1();\n  }}\n  return r;\n}}"),
                6 => format!("export const thunk{n} = (pz = x) => {{\n  pz = pz;\n  const r = [@H@];\n  {{\n    f2(y);\n  }}\n  return r;\n}};"),
                0 => format!("export const thunk{n} = (pz = x) => (pz = pz, @H@);"),
                1 => format!("export function thunk{n}(pz = y) {{\n  pz = pz;\n  return @H@;\n}}"),
                2 => format!("export const thunk{n} = (pz = x) => {{\n  pz = pz;\n  return [@H@];\n}};"),
                // no assignment to the parameter: the other scope's `pz` must not arm anything
                3 => format!("export const thunk{n} = (pz = x) => @H@;"),
                _ => format!("export function thunk{n}(pz = y) {{\n  return @H@;\n}}"),
            };
            contexts_used.push("parameter-capture");
            items.push(Item::Site { tpl, node });
            continue;
        }
        contexts_used.push(ctx.label);
        items.push(Item::Site {
            tpl: fill(ctx.tpl, n, "@H@"),
            node,
        });
    }
    if g.c.chance(1, 2) {
        items.push(Item::Raw(sibling(g.c, 99)));
    }
    let (main, refs) = g.assemble_items(&items);
    let mut case = Case::new(main, "jsx", Some(opts.json()));
    case.labels = g.labels.clone();
    for l in &contexts_used {
        case.label(format!("ctx={l}"));
    }
    case.extra = json!({
        "env": g.env.json(),
        "refs": refs,
        "protocol": {"callThunks": true, "construct": true, "fireListeners": true},
        "pragma": opts.pragma,
    });
    let distinct_ctx: std::collections::BTreeSet<&str> = contexts_used.iter().copied().collect();
    case.nontrivial = non_module_needy
        || distinct_ctx.len() >= 2
        || case.labels.iter().any(|l| l == "colliding-user-name");
    let k = crate::choices::hash64(&case.extra["env"].to_string());
    case.extra["distinct_key"] = json!(k);
    case
}

/// static parts of C06: free variables and generated-binding use counts
fn static_checks(case: &Case) -> Result<(), Verdict> {
    let lang = Lang::from_str(&case.lang);
    let r = with_transform(&case.source, lang, case.options.as_deref(), |t| {
        let Some(raw) = &t.raw else {
            return Err(Verdict::Violation {
                kind: "transform-panicked".into(),
                detail: json!({"message": t.panicked}),
            });
        };
        let in_free = free_vars(&t.input, t.unresolved_mark);
        let code = match t.print_final(raw) {
            Ok(c) => c,
            Err(e) => {
                return Err(Verdict::Violation {
                    kind: "output-unprintable".into(),
                    detail: json!({"message": e}),
                })
            }
        };
        let out_free = match free_vars_of_code(&code, lang, false) {
            Ok(f) => f,
            Err(e) => {
                return Err(Verdict::Violation {
                    kind: "output-does-not-reparse".into(),
                    detail: json!({"error": e, "output": code}),
                })
            }
        };
        let pragma = case.extra["pragma"].as_str().unwrap_or("");
        let extra: Vec<&String> = out_free
            .iter()
            .filter(|n| !in_free.contains(*n) && n.as_str() != pragma)
            .collect();
        if !extra.is_empty() {
            return Err(Verdict::Violation {
                kind: "new-free-variable".into(),
                detail: json!({"names": extra, "output": code}),
            });
        }
        // every generated binding is used (declared + referenced => at least two occurrences)
        let lonely: Vec<String> = generated_ident_counts(t)
            .into_iter()
            .filter(|(_, n)| *n < 2)
            .map(|(s, _)| s)
            .collect();
        if !lonely.is_empty() {
            return Err(Verdict::Violation {
                kind: "generated-binding-unused-or-undeclared".into(),
                detail: json!({"names": lonely, "output": code}),
            });
        }
        Ok(())
    });
    match r {
        Ok(x) => x,
        Err(e) => Err(Verdict::Discard(format!("rejected:{e:?}"))),
    }
}

impl Property for C06 {
    fn id(&self) -> &'static str {
        "C06"
    }
    fn rule(&self) -> String {
        "modules of 1-5 JSX sites, each placed in one of 34 syntactic contexts (module level, function declaration/expression, arrow expression/block body, nested arrows, class field / method / getter / setter / static field / static block, default parameter of arrow and function, object-literal method, IIFE, for-of / for / while / if / try-catch-finally / switch / labelled / nested blocks, generator, async arrow, user-declared inner `_slot` / `_isSlot`) with independent sibling code before, between and after; every site is a random C01-C05 shape or a component with a call / identifier child (needs a temporary and the slot helper); a site may be preceded by an assignment to a same-named local of another scope (arms the captured-copy path without the D11 shape); expressions may reference user bindings named like generated ones (_createVNode, _slot, _isSlot, _Fragment, _mergeProps, s, $event, ...). Oracle: (a) free variables of the printed output (re-parse + resolver) within free variables of the input plus the pragma; (b) every generated identifier (syntax context absent from the input) occurs at least twice in the raw output (declared and used); (c) the module evaluates and a driver enters every context (calls every exported thunk, constructs every class and touches its members, fires every v-model listener) without ReferenceError / TDZ / redeclaration / TypeError; (d) canonical values equal the reference lowering's, which sees the user's sentinels (no capture). non-trivial = a temporary/helper-needing lowering outside module level, or >=2 distinct contexts, or a colliding user name; distinct by hash(source, options, env)".into()
    }
    fn assumptions(&self) -> Vec<String> {
        vec![
            "resolveType off (C17's constructor names are language globals and not C06's subject)".into(),
            "D11 shape (component whose sole child is an identifier assigned earlier) is excluded by construction while listed as known; its example is probed in the replay tier".into(),
        ]
    }
    fn max_bytes(&self) -> usize {
        700
    }
    fn cases(&self, tier: Tier) -> u32 {
        match tier {
            Tier::Quick => 20_000,
            Tier::Thorough => 200_000,
        }
    }
    fn uses_node(&self) -> bool {
        true
    }
    fn generate(&self, c: &mut Choices) -> Case {
        gen_c06(c)
    }
    fn check(&self, case: &Case, ctx: &mut Ctx) -> Verdict {
        if case.extra["probe"].as_str() == Some("D11") {
            return probe_d11(case, ctx, "C06");
        }
        if let Err(v) = static_checks(case) {
            return v;
        }
        judge_semantic_for(case, ctx, "C06")
    }
    fn builtin_cases(&self) -> Vec<Case> {
        vec![d11_probe_case()]
    }
    fn required_labels(&self) -> Vec<&'static str> {
        vec![
            "ctx=module",
            "ctx=class-field",
            "ctx=default-param-arrow",
            "ctx=default-param-function",
            "ctx=arrow-expr-body",
            "ctx=class-static-block",
            "ctx=for-loop-no-block",
            "ctx=user-inner-_slot",
            "needs-temporary-or-helper",
            "colliding-user-name",
            "captured-copy-armed-by-other-scope-assignment",
            "captured-copy-of-a-parameter-named-like-an-assigned-local",
            "user-local-spelled-like-the-temporary-assigned-elsewhere",
        ]
    }
}

// ---------------------------------------------------------------------------------------------
// D11 probe (known finding: stale assignment target + TDZ const)

pub fn d11_probe_case() -> Case {
    let src = "import { C1 } from \"env\";\nexport let a = \"a0\";\na = \"a1\";\nexport const e0 = <C1>{a}</C1>;\n";
    let mut c = Case::new(src.to_string(), "jsx", Some("{}".into()));
    c.extra = json!({"probe": "D11", "env": {"bound": {"C1": {"k": "comp", "id": "C1"}}, "globals": {}}});
    c.label("probe=D11");
    c
}

/// The known finding D11: `x = ...; ... <C>{x}</C>` hoists `const _x = function(){return x}()` above
/// the declaration of `x` (TDZ ReferenceError) - pinned by fixture reassign-variable-as-component.
pub fn probe_d11(case: &Case, ctx: &mut Ctx, prop: &str) -> Verdict {
    let t = match transform_for_eval(case) {
        Ok(t) => t,
        Err(v) => return v,
    };
    let results = match node_eval(ctx, vec![("main", t.code.as_str())], &case.extra["env"], &json!({}), None) {
        Ok(r) => r,
        Err(v) => return v,
    };
    let err = &results["main"]["error"];
    if err.is_null() {
        return Verdict::Pass; // the defect is gone
    }
    let is_tdz = err["kind"] == "ReferenceError";
    if is_tdz && ctx.findings.known("D11", prop) {
        return Verdict::Known("D11".into());
    }
    Verdict::Violation {
        kind: "tdz-or-unbound-generated-name".into(),
        detail: json!({"error": err, "output": t.code}),
    }
}

// ---------------------------------------------------------------------------------------------

pub struct C10;

fn distractor(g: &mut Sem, n: usize) -> Item {
    let k = g.c.pick(9);
    match k {
        0 => {
            g.label("distractor=assignment-same-name-other-scope");
            Item::Raw(format!("function dz{n}() {{\n  let x;\n  x = 1;\n  let y = 2;\n  y = x;\n  return y;\n}}"))
        }
        1 => {
            g.label("distractor=module-assignment");
            Item::Raw(format!("let dz{n} = 1;\ndz{n} = 2;"))
        }
        2 => {
            g.label("distractor=function-with-temporaries");
            let node = needy_node(g);
            Item::Site {
                tpl: format!("export function thunkdz{n}() {{\n  return @H@;\n}}"),
                node,
            }
        }
        3 => {
            g.label("distractor=arrow-with-temporaries");
            let node = needy_node(g);
            Item::Site {
                tpl: format!("export const thunkdz{n} = () => @H@;"),
                node,
            }
        }
        4 => {
            g.label("distractor=fragment-use");
            Item::Site {
                tpl: format!("export const dz{n} = @H@;"),
                node: Node::Frag(vec![Child::Expr(Ex::src("x", Cat::IdentBound))]),
            }
        }
        5 => {
            g.label("distractor=module-level-temporary");
            let node = needy_node(g);
            Item::Site {
                tpl: format!("export const dz{n} = @H@;"),
                node,
            }
        }
        6 => {
            g.label("distractor=block-draining");
            let node = needy_node(g);
            Item::Site {
                tpl: format!("export let dz{n};\n{{\n  dz{n} = @H@;\n}}"),
                node,
            }
        }
        7 => {
            g.label("distractor=text-and-directive");
            Item::Raw(format!("export const dz{n} = <div v-show={{b1}}>text</div>;").replace("<div", "<div id=\"dz\""))
        }
        _ => {
            g.label("distractor=class-field-site");
            let node = needy_node(g);
            Item::Site {
                tpl: format!("export class Kdz{n} {{\n  fld = @H@;\n}}"),
                node,
            }
        }
    }
}

fn gen_c10(c: &mut Choices) -> Case {
    let opts = any_opts(c, true, false);
    let mut cfg = site_cfg();
    cfg.colliding = false;
    let mut g = Sem::new(c, cfg, opts.clone());
    // user imports from vue that are distractors themselves
    let vue_import = g.c.weighted(&[6, 2, 2, 1]);
    let n_pre = g.c.len(3);
    let n_post = g.c.len(3);
    let mut pre = vec![];
    for n in 0..n_pre {
        pre.push(distractor(&mut g, n));
    }
    // history triple: an assignment to `av`, then a component with a call child (which must
    // consume the remembered assignment target), later the subject `<C2>{av}</C2>`. (Without the
    // call-child component in between this would be the known D11 shape.)
    // (only with enableObjectSlots on: otherwise the call-child component does not consult the
    // remembered target and the subject would be the known D11 shape itself)
    let triple = g.c.chance(1, 6) && opts.enable_object_slots;
    if triple {
        g.label("distractor=assignment-then-call-child-before-same-name-child");
        pre.push(Item::Raw("av = x;".into()));
        pre.push(Item::Site {
            tpl: "export const dzt = @H@;".into(),
            node: Node::El(Element {
                tag: Tag::Bound("C1".into()),
                attrs: vec![],
                children: vec![Child::Expr(Ex::src("f1()", Cat::Call))],
                self_closing: false,
            }),
        });
    }
    let ctx = &CONTEXTS[g.c.pick(CONTEXTS.len())];
    let needy = g.c.chance(1, 2);
    let mut node = if needy { needy_node(&mut g) } else { g.node(0) };
    if vue_import == 1 && g.c.chance(1, 2) {
        // the user's own alias of Fragment as a tag: must mean the same before and after a `<>`
        g.label("subject=user-Fragment-alias-tag");
        let kids = vec![Child::Expr(Ex::src("x", Cat::IdentBound)), Child::Expr(Ex::src("f1()", Cat::Call))];
        node = Node::El(Element {
            tag: Tag::Bound("_Fragment".into()),
            attrs: vec![],
            children: kids,
            self_closing: false,
        });
    }
    // history pair: an assignment to a local named like the subject's sole identifier child, in
    // another scope (harmless capture of the imported `y`), and a function body afterwards
    let other_scope = !triple && g.c.chance(1, 6);
    if other_scope {
        g.label("distractor=same-name-assignment-in-other-scope-before-identifier-child");
        pre.push(Item::Raw("function dzh() {\n  let y;\n  y = 1;\n  return y;\n}".into()));
        node = Node::El(Element {
            tag: Tag::Bound("C2".into()),
            attrs: vec![],
            children: vec![Child::Expr(Ex::src("y", Cat::IdentBound))],
            self_closing: false,
        });
    }
    if triple {
        node = Node::El(Element {
            tag: Tag::Bound("C2".into()),
            attrs: vec![],
            children: vec![Child::Expr(Ex::src("av", Cat::IdentBound))],
            self_closing: false,
        });
    }
    let subject = Item::Site {
        tpl: if triple || other_scope {
            // module level, so that the assignment and the subject share one traversal scope
            "export const e0 = @H@;".to_string()
        } else {
            fill(ctx.tpl, 0, "@H@")
        },
        node,
    };
    let mut post = vec![];
    for n in 0..n_post {
        post.push(distractor(&mut g, 10 + n));
    }
    if other_scope {
        post.push(Item::Raw("export const thunkdzb = () => {\n  if (b1) {\n    return 1;\n  }\n  return 2;\n};".into()));
    }
    let vue_line = match vue_import {
        1 => {
            g.label("distractor=user-import-Fragment-alias");
            Some("import { Fragment as _Fragment } from \"vue\";".to_string())
        }
        2 => {
            g.label("distractor=user-import-defineComponent");
            Some("import { defineComponent, h as vueH } from \"vue\";".to_string())
        }
        3 => {
            g.label("distractor=user-namespace-import");
            Some("import * as Vue from \"vue\";".to_string())
        }
        _ => None,
    };
    // distractors that contain raw JSX text (kind 7) cannot be rendered as reference; C10 needs
    // no reference: it compares the subject alone vs composed
    let mut composed: Vec<Item> = vec![];
    if triple {
        composed.push(Item::Raw("let av = x;".into()));
    }
    if let Some(l) = &vue_line {
        composed.push(Item::Raw(l.clone()));
    }
    composed.extend(pre.iter().cloned());
    composed.push(subject.clone());
    composed.extend(post.iter().cloned());
    let mut alone = vec![];
    if triple {
        alone.push(Item::Raw("let av = x;".into()));
    }
    if g.labels.iter().any(|l| l == "subject=user-Fragment-alias-tag") {
        // the subject references this binding: it belongs to the subject, not to the context
        alone.push(Item::Raw(vue_line.clone().unwrap()));
    }
    alone.push(subject.clone());
    let (main, _) = g.assemble_items(&composed);
    let (main_alone, _) = g.assemble_items(&alone);
    // every distractor alone (with the subject removed)
    let mut without: Vec<Item> = vec![];
    if triple {
        without.push(Item::Raw("let av = x;".into()));
    }
    if let Some(l) = &vue_line {
        without.push(Item::Raw(l.clone()));
    }
    without.extend(pre.iter().cloned());
    without.extend(post.iter().cloned());
    let (main_without, _) = g.assemble_items(&without);
    let mut case = Case::new(main, "jsx", Some(opts.json()));
    case.labels = g.labels.clone();
    case.label(format!("subject-ctx={}", ctx.label));
    case.extra = json!({
        "env": g.env.json(),
        "alone": main_alone,
        "without": main_without,
        "protocol": {"callThunks": true, "construct": true, "fireListeners": true},
    });
    case.nontrivial = n_pre + n_post > 0 && case.labels.iter().any(|l| l.starts_with("distractor="));
    let k = crate::choices::hash64(&case.extra["env"].to_string());
    case.extra["distinct_key"] = json!(k);
    case
}

fn restrict(v: &Value, keep: &dyn Fn(&str) -> bool) -> Value {
    let mut out = serde_json::Map::new();
    if let Some(o) = v.as_object() {
        for (k, x) in o {
            if keep(k) {
                out.insert(k.clone(), x.clone());
            }
        }
    }
    Value::Object(out)
}

impl Property for C10 {
    fn id(&self) -> &'static str {
        "C10"
    }
    fn rule(&self) -> String {
        "triples (prefix distractors 0-3, subject, suffix distractors 0-3): the subject is a random C01-C05 shape or a temporary/helper-needing component site placed in one of 34 syntactic contexts; distractors are independent by construction: assignments to same-named identifiers in other scopes, module-level assignments, functions / arrows / class fields / blocks with their own JSX needing temporaries, fragment uses, user imports from 'vue' (Fragment alias, defineComponent, namespace). Metamorphic oracle (no reference): canonical values (errors count as values) of the subject's exports in the composed module == in the module containing the subject alone; and of every distractor export == in the module with the subject removed. non-trivial = >=1 distractor; distinct by hash(source, options, env)".into()
    }
    fn assumptions(&self) -> Vec<String> {
        vec![
            "pragma annotations are module-wide by C15 and are not distractors".into(),
            "D11 shape excluded by construction while listed as known; probed in the replay tier".into(),
        ]
    }
    fn max_bytes(&self) -> usize {
        700
    }
    fn cases(&self, tier: Tier) -> u32 {
        match tier {
            Tier::Quick => 15_000,
            Tier::Thorough => 200_000,
        }
    }
    fn uses_node(&self) -> bool {
        true
    }
    fn generate(&self, c: &mut Choices) -> Case {
        gen_c10(c)
    }
    fn check(&self, case: &Case, ctx: &mut Ctx) -> Verdict {
        if case.extra["probe"].as_str() == Some("D11") {
            return probe_d11(case, ctx, "C10");
        }
        let mut codes = vec![];
        for (name, src) in [
            ("main", case.source.clone()),
            ("alone", case.extra["alone"].as_str().unwrap_or("").to_string()),
            ("without", case.extra["without"].as_str().unwrap_or("").to_string()),
        ] {
            let mut c2 = case.clone();
            c2.source = src;
            match transform_for_eval(&c2) {
                Ok(t) => {
                    if !t.diags.is_empty() {
                        return Verdict::Violation {
                            kind: "unexpected-diagnostic".into(),
                            detail: json!({"module": name, "diags": t.diags}),
                        };
                    }
                    codes.push((name, t.code));
                }
                Err(v) => return v,
            }
        }
        let mods: Vec<(&str, &str)> = codes.iter().map(|(a, b)| (*a, b.as_str())).collect();
        let results = match node_eval(ctx, mods, &case.extra["env"], &case.extra["protocol"], None) {
            Ok(r) => r,
            Err(v) => return v,
        };
        // subject exports: names ending in "0" / "0b" of the subject template
        let is_subject = |k: &str| k == "e0" || k == "thunk0" || k == "K0" || k == "thunk0b";
        let composed = &results["main"];
        // 1. subject alone vs in context
        let a = json!({"ref0": {"error": results["alone"]["error"], "exports": results["alone"]["exports"]},
                       "main": {"error": composed["error"], "exports": restrict(&composed["exports"], &is_subject)}});
        // when the composed module fails to evaluate while the subject alone is fine, that is a
        // difference too (errors count as values)
        if let Err(info) = compare_to_refs(&a, 1, &["error", "exports"]) {
            return Verdict::Violation {
                kind: "subject-depends-on-context".into(),
                detail: json!({"info": info, "alone": results["alone"], "composed_error": composed["error"],
                    "composed_subject": restrict(&composed["exports"], &is_subject),
                    "composed_output": codes[0].1, "alone_output": codes[1].1}),
            };
        }
        // 2. distractors with vs without the subject
        let not_subject = |k: &str| !is_subject(k);
        let b = json!({"ref0": {"exports": results["without"]["exports"], "error": results["without"]["error"]},
                       "main": {"exports": restrict(&composed["exports"], &not_subject), "error": composed["error"]}});
        if let Err(info) = compare_to_refs(&b, 1, &["error", "exports"]) {
            return Verdict::Violation {
                kind: "distractor-depends-on-subject".into(),
                detail: json!({"info": info, "without": results["without"],
                    "composed": restrict(&composed["exports"], &not_subject),
                    "composed_output": codes[0].1, "without_output": codes[2].1}),
            };
        }
        Verdict::Pass
    }
    fn builtin_cases(&self) -> Vec<Case> {
        vec![d11_probe_case()]
    }
    fn required_labels(&self) -> Vec<&'static str> {
        vec![
            "distractor=assignment-same-name-other-scope",
            "distractor=module-assignment",
            "distractor=function-with-temporaries",
            "distractor=arrow-with-temporaries",
            "distractor=fragment-use",
            "distractor=module-level-temporary",
            "distractor=user-import-Fragment-alias",
            "distractor=assignment-then-call-child-before-same-name-child",
            "distractor=same-name-assignment-in-other-scope-before-identifier-child",
        ]
    }
}
