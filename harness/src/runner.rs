//! Generic property runner: proptest-driven choice sequences on K threads, exhaustive
//! sub-spaces, replay tier, known-finding probes, evidence and replay files.

use std::collections::{BTreeMap, HashSet};
use std::path::{Path, PathBuf};
use std::sync::atomic::{AtomicBool, Ordering};
use std::sync::Mutex;
use std::time::Instant;

use proptest::collection::vec;
use proptest::prelude::any;
use proptest::test_runner::{Config, RngSeed, TestCaseError, TestError, TestRunner};
use serde::{Deserialize, Serialize};
use serde_json::{json, Value};

use crate::choices::{hash64, Choices};
use crate::node::NodeChild;

#[derive(Clone, Debug, Serialize, Deserialize)]
pub struct Case {
    pub source: String,
    pub lang: String,
    /// options as JSON text exactly as handed to serde; None = "no configuration"
    pub options: Option<String>,
    #[serde(default)]
    pub labels: Vec<String>,
    #[serde(default)]
    pub nontrivial: bool,
    /// property-specific payload (env spec, reference program, expectations, ...)
    #[serde(default)]
    pub extra: Value,
}

impl Case {
    pub fn new(source: String, lang: &str, options: Option<String>) -> Case {
        Case {
            source,
            lang: lang.to_string(),
            options,
            labels: vec![],
            nontrivial: false,
            extra: Value::Null,
        }
    }
    pub fn key(&self) -> u64 {
        let mut s = String::with_capacity(self.source.len() + 64);
        s.push_str(&self.source);
        s.push('\u{1}');
        s.push_str(self.options.as_deref().unwrap_or("<none>"));
        s.push('\u{1}');
        s.push_str(&self.lang);
        if let Some(k) = self.extra.get("distinct_key") {
            s.push_str(&k.to_string());
        }
        hash64(&s)
    }
    pub fn label(&mut self, l: impl Into<String>) {
        let l = l.into();
        if !self.labels.contains(&l) {
            self.labels.push(l);
        }
    }
}

#[derive(Debug, Clone)]
pub enum Verdict {
    Pass,
    /// outside the property's domain (parser-rejected, codegen round trip, ...)
    Discard(String),
    /// failed exactly as a listed known finding describes
    Known(String),
    Violation { kind: String, detail: Value },
    /// infrastructure failure (evaluator died ...): run is inconclusive
    Infra(String),
}

pub struct Ctx {
    pub node: Option<NodeChild>,
    pub workers: Vec<crate::worker::WorkerChild>,
    pub findings: Findings,
    pub tier: Tier,
    pub seed: u64,
    pub strict: bool,
}

impl Ctx {
    pub fn node(&mut self) -> Result<&mut NodeChild, String> {
        if self.node.is_none() {
            self.node = Some(NodeChild::spawn()?);
        }
        Ok(self.node.as_mut().unwrap())
    }
}

#[derive(Clone, Copy, PartialEq, Eq, Debug)]
pub enum Tier {
    Quick,
    Thorough,
}

pub trait Property: Sync {
    fn id(&self) -> &'static str;
    fn rule(&self) -> String;
    fn assumptions(&self) -> Vec<String>;
    /// upper bound of choice bytes a case consumes
    fn max_bytes(&self) -> usize {
        256
    }
    fn cases(&self, tier: Tier) -> u32;
    fn generate(&self, c: &mut Choices) -> Case;
    fn check(&self, case: &Case, ctx: &mut Ctx) -> Verdict;
    /// finite sub-spaces enumerated completely: (name, cases)
    fn exhaustive(&self, _tier: Tier) -> Vec<(String, Vec<Case>)> {
        vec![]
    }
    /// fixed regression inputs (beyond files under replays/<id>/)
    fn builtin_cases(&self) -> Vec<Case> {
        vec![]
    }
    /// classes that must be non-empty for the generator to count as healthy
    fn required_labels(&self) -> Vec<&'static str> {
        vec![]
    }
    /// optional extra stage (fuzz campaign, corpus sweep ...). Returns extra evidence keys.
    fn extra_stage(&self, _ctx: &mut Ctx, _stats: &mut Stats) -> Result<Option<Violation>, String> {
        Ok(None)
    }
    fn uses_node(&self) -> bool {
        false
    }
}

// --------------------------------------------------------------------------------------------
// known findings

#[derive(Clone, Debug, Deserialize, Serialize)]
pub struct FindingEntry {
    pub id: String,
    pub property: Vec<String>,
    pub status: String,
    #[serde(default)]
    pub commit: Option<String>,
    pub what: String,
    #[serde(default)]
    pub example: Value,
}

#[derive(Clone, Default)]
pub struct Findings {
    pub entries: Vec<FindingEntry>,
}

impl Findings {
    pub fn load(root: &Path) -> Findings {
        let p = root.join("known_findings.json");
        match std::fs::read_to_string(&p) {
            Ok(s) => {
                let v: Value = serde_json::from_str(&s).expect("known_findings.json invalid");
                let entries: Vec<FindingEntry> =
                    serde_json::from_value(v["findings"].clone()).expect("findings list invalid");
                Findings { entries }
            }
            Err(_) => Findings::default(),
        }
    }
    /// listed with status "known" for this property
    pub fn known(&self, id: &str, prop: &str) -> bool {
        self.entries
            .iter()
            .any(|e| e.id == id && e.status == "known" && e.property.iter().any(|p| p == prop))
    }
    pub fn any_known(&self, id: &str) -> bool {
        self.entries.iter().any(|e| e.id == id && e.status == "known")
    }
    pub fn get(&self, id: &str) -> Option<&FindingEntry> {
        self.entries.iter().find(|e| e.id == id)
    }
}

// --------------------------------------------------------------------------------------------
// statistics / evidence

#[derive(Default)]
pub struct Stats {
    pub evaluations: u64,
    pub nontrivial: HashSet<u64>,
    pub distinct: HashSet<u64>,
    pub labels: BTreeMap<String, u64>,
    pub discarded: BTreeMap<String, u64>,
    pub known_hits: BTreeMap<String, u64>,
    pub samples: Vec<Value>,
    pub sample_seen: u64,
    pub exhaustive: Vec<Value>,
    pub extra: BTreeMap<String, Value>,
}

impl Stats {
    pub fn merge(&mut self, o: Stats) {
        self.evaluations += o.evaluations;
        self.nontrivial.extend(o.nontrivial);
        self.distinct.extend(o.distinct);
        for (k, v) in o.labels {
            *self.labels.entry(k).or_default() += v;
        }
        for (k, v) in o.discarded {
            *self.discarded.entry(k).or_default() += v;
        }
        for (k, v) in o.known_hits {
            *self.known_hits.entry(k).or_default() += v;
        }
        for s in o.samples {
            if self.samples.len() < 8 {
                self.samples.push(s);
            }
        }
        self.exhaustive.extend(o.exhaustive);
        for (k, v) in o.extra {
            self.extra.insert(k, v);
        }
    }

    pub fn record(&mut self, case: &Case, verdict: &Verdict) {
        self.evaluations += 1;
        match verdict {
            Verdict::Discard(r) => {
                *self.discarded.entry(r.clone()).or_default() += 1;
                return;
            }
            Verdict::Known(id) => {
                *self.known_hits.entry(id.clone()).or_default() += 1;
            }
            _ => {}
        }
        let k = case.key();
        self.distinct.insert(k);
        for l in &case.labels {
            *self.labels.entry(l.clone()).or_default() += 1;
        }
        if case.nontrivial && self.nontrivial.insert(k) {
            self.sample_seen += 1;
            // keep first, and a deterministic sparse selection afterwards
            let n = self.sample_seen;
            if self.samples.len() < 2 || (n.is_power_of_two() && self.samples.len() < 6) {
                self.samples.push(json!({
                    "source": case.source,
                    "lang": case.lang,
                    "options": case.options,
                    "labels": case.labels,
                }));
            }
        }
    }
}

#[derive(Debug, Clone)]
pub struct Violation {
    pub kind: String,
    pub detail: Value,
    pub case: Case,
    pub choice_bytes: Option<Vec<u8>>,
}

pub struct RunResult {
    pub stats: Stats,
    pub violation: Option<Violation>,
    pub infra: Option<String>,
}

fn root_dir() -> PathBuf {
    if let Ok(r) = std::env::var("VJX_ROOT") {
        return PathBuf::from(r);
    }
    // binary lives in <root>/harness/target/release/vjx
    let exe = std::env::current_exe().unwrap();
    let mut p = exe.as_path();
    for _ in 0..4 {
        p = p.parent().unwrap_or(p);
    }
    p.to_path_buf()
}

pub fn verif_root() -> PathBuf {
    root_dir()
}

pub fn threads() -> usize {
    std::env::var("VJX_THREADS")
        .ok()
        .and_then(|s| s.parse().ok())
        .unwrap_or_else(|| {
            std::thread::available_parallelism()
                .map(|n| n.get().saturating_sub(2).max(1))
                .unwrap_or(4)
        })
}

fn new_ctx(findings: &Findings, tier: Tier, seed: u64) -> Ctx {
    Ctx {
        node: None,
        workers: vec![],
        findings: findings.clone(),
        tier,
        seed,
        strict: false,
    }
}

/// Run replay tier + exhaustive sub-spaces + generated cases.
pub fn run_property(p: &dyn Property, tier: Tier, seed: u64) -> RunResult {
    let root = verif_root();
    let findings = Findings::load(&root);
    let mut stats = Stats::default();
    let mut ctx = new_ctx(&findings, tier, seed);

    // 1. replay tier: saved replays + builtin regression inputs
    let mut replay_cases: Vec<(String, Case)> = vec![];
    let rdir = root.join("replays").join(p.id());
    if let Ok(rd) = std::fs::read_dir(&rdir) {
        let mut files: Vec<_> = rd.filter_map(|e| e.ok()).map(|e| e.path()).collect();
        files.sort();
        for f in files {
            if f.extension().map(|e| e == "json").unwrap_or(false) {
                if let Ok(s) = std::fs::read_to_string(&f) {
                    if let Ok(v) = serde_json::from_str::<Value>(&s) {
                        if let Ok(c) = serde_json::from_value::<Case>(v["case"].clone()) {
                            replay_cases.push((f.display().to_string(), c));
                        }
                    }
                }
            }
        }
    }
    for (i, c) in p.builtin_cases().into_iter().enumerate() {
        replay_cases.push((format!("builtin#{i}"), c));
    }
    let n_replays = replay_cases.len();
    for (_name, c) in replay_cases {
        let v = p.check(&c, &mut ctx);
        match v {
            Verdict::Violation { kind, detail } => {
                return RunResult {
                    stats,
                    violation: Some(Violation {
                        kind,
                        detail,
                        case: c,
                        choice_bytes: None,
                    }),
                    infra: None,
                };
            }
            Verdict::Infra(e) => {
                return RunResult {
                    stats,
                    violation: None,
                    infra: Some(e),
                }
            }
            v => stats.record(&c, &v),
        }
    }
    stats.extra.insert("replay_tier_cases".into(), json!(n_replays));

    // 2. exhaustive sub-spaces (parallel over chunks)
    for (name, cases) in p.exhaustive(tier) {
        let total = cases.len();
        let r = run_list(p, &cases, &findings, tier, seed);
        stats.merge(r.stats);
        if r.violation.is_some() || r.infra.is_some() {
            return RunResult {
                stats,
                violation: r.violation,
                infra: r.infra,
            };
        }
        stats
            .exhaustive
            .push(json!({"subspace": name, "cases": total, "complete": true}));
    }

    // 3. generated cases
    let total_cases = p.cases(tier);
    if total_cases > 0 {
        let r = run_generated(p, total_cases, &findings, tier, seed);
        stats.merge(r.stats);
        if r.violation.is_some() || r.infra.is_some() {
            return RunResult {
                stats,
                violation: r.violation,
                infra: r.infra,
            };
        }
    }

    // 4. extra stage
    match p.extra_stage(&mut ctx, &mut stats) {
        Ok(None) => {}
        Ok(Some(v)) => {
            return RunResult {
                stats,
                violation: Some(v),
                infra: None,
            }
        }
        Err(e) => {
            return RunResult {
                stats,
                violation: None,
                infra: Some(e),
            }
        }
    }

    RunResult {
        stats,
        violation: None,
        infra: None,
    }
}

pub fn run_list(
    p: &dyn Property,
    cases: &[Case],
    findings: &Findings,
    tier: Tier,
    seed: u64,
) -> RunResult {
    let k = threads().min(cases.len().max(1));
    let stop = AtomicBool::new(false);
    let merged = Mutex::new((Stats::default(), None::<Violation>, None::<String>));
    let chunk = cases.len().div_ceil(k.max(1)).max(1);
    std::thread::scope(|s| {
        for part in cases.chunks(chunk) {
            let stop = &stop;
            let merged = &merged;
            s.spawn(move || {
                let mut ctx = new_ctx(findings, tier, seed);
                let mut st = Stats::default();
                let mut viol = None;
                let mut infra = None;
                for c in part {
                    if stop.load(Ordering::Relaxed) {
                        break;
                    }
                    match p.check(c, &mut ctx) {
                        Verdict::Violation { kind, detail } => {
                            viol = Some(Violation {
                                kind,
                                detail,
                                case: c.clone(),
                                choice_bytes: None,
                            });
                            stop.store(true, Ordering::Relaxed);
                            break;
                        }
                        Verdict::Infra(e) => {
                            infra = Some(e);
                            stop.store(true, Ordering::Relaxed);
                            break;
                        }
                        v => st.record(c, &v),
                    }
                }
                let mut g = merged.lock().unwrap();
                g.0.merge(st);
                if g.1.is_none() {
                    g.1 = viol;
                }
                if g.2.is_none() {
                    g.2 = infra;
                }
            });
        }
    });
    let (stats, violation, infra) = merged.into_inner().unwrap();
    RunResult {
        stats,
        violation,
        infra,
    }
}

fn run_generated(
    p: &dyn Property,
    total_cases: u32,
    findings: &Findings,
    tier: Tier,
    seed: u64,
) -> RunResult {
    let k = threads() as u32;
    let per = total_cases.div_ceil(k).max(1);
    let stop = AtomicBool::new(false);
    let merged = Mutex::new((Stats::default(), None::<Violation>, None::<String>));
    let max_bytes = p.max_bytes();
    std::thread::scope(|s| {
        for i in 0..k {
            let stop = &stop;
            let merged = &merged;
            s.spawn(move || {
                struct St {
                    ctx: Ctx,
                    st: Stats,
                    infra: Option<String>,
                    failed_once: bool,
                    last_fail: Option<(String, Value)>,
                }
                let cell = std::cell::RefCell::new(St {
                    ctx: new_ctx(findings, tier, seed),
                    st: Stats::default(),
                    infra: None,
                    failed_once: false,
                    last_fail: None,
                });
                let cfg = Config {
                    cases: per,
                    failure_persistence: None,
                    rng_seed: RngSeed::Fixed(seed.wrapping_mul(1000).wrapping_add(i as u64)),
                    max_shrink_iters: 4000,
                    ..Config::default()
                };
                let mut runner = TestRunner::new(cfg);
                let strat = vec(any::<u8>(), (max_bytes / 4).max(1)..=max_bytes);
                let res = runner.run(&strat, |bytes| {
                    let mut guard = cell.borrow_mut();
                    let s = &mut *guard;
                    if s.infra.is_some() {
                        return Ok(());
                    }
                    if !s.failed_once && stop.load(Ordering::Relaxed) {
                        return Ok(());
                    }
                    let mut ch = Choices::new(&bytes);
                    let case = p.generate(&mut ch);
                    let v = p.check(&case, &mut s.ctx);
                    match v {
                        Verdict::Violation { kind, detail } => {
                            s.failed_once = true;
                            stop.store(true, Ordering::Relaxed);
                            s.last_fail = Some((kind.clone(), detail));
                            Err(TestCaseError::fail(kind))
                        }
                        Verdict::Infra(e) => {
                            s.infra = Some(e);
                            stop.store(true, Ordering::Relaxed);
                            Ok(())
                        }
                        v => {
                            if !s.failed_once {
                                s.st.record(&case, &v);
                            }
                            Ok(())
                        }
                    }
                });
                let St {
                    mut ctx,
                    st,
                    mut infra,
                    last_fail,
                    ..
                } = cell.into_inner();
                let mut viol = None;
                if let Err(TestError::Fail(_, bytes)) = res {
                    let mut ch = Choices::new(&bytes);
                    let case = p.generate(&mut ch);
                    // re-judge the minimal case to get its own detail
                    let (kind, detail) = match p.check(&case, &mut ctx) {
                        Verdict::Violation { kind, detail } => (kind, detail),
                        _ => last_fail.clone().unwrap_or(("unknown".into(), Value::Null)),
                    };
                    viol = Some(Violation {
                        kind,
                        detail,
                        case,
                        choice_bytes: Some(bytes),
                    });
                } else if let Err(TestError::Abort(r)) = res {
                    infra = Some(format!("proptest aborted: {r}"));
                }
                let mut g = merged.lock().unwrap();
                g.0.merge(st);
                if g.1.is_none() {
                    g.1 = viol;
                }
                if g.2.is_none() {
                    g.2 = infra;
                }
            });
        }
    });
    let (stats, violation, infra) = merged.into_inner().unwrap();
    RunResult {
        stats,
        violation,
        infra,
    }
}

// --------------------------------------------------------------------------------------------
// output: evidence + replay

pub fn write_replay(p: &dyn Property, v: &Violation, seed: u64) -> PathBuf {
    let root = verif_root();
    let dir = root.join("replays").join("found");
    let _ = std::fs::create_dir_all(&dir);
    let h = v.case.key();
    let path = dir.join(format!("{}-{:016x}.json", p.id(), h));
    let doc = json!({
        "property": p.id(),
        "kind": v.kind,
        "detail": v.detail,
        "seed": seed,
        "choice_bytes": v.choice_bytes,
        "case": v.case,
    });
    std::fs::write(&path, serde_json::to_string_pretty(&doc).unwrap()).expect("write replay");
    path
}

pub fn write_evidence(
    p: &dyn Property,
    tier: Tier,
    seed: u64,
    stats: &Stats,
    wall_s: f64,
    violations: u32,
) {
    let root = verif_root();
    let dir = root.join("evidence");
    let _ = std::fs::create_dir_all(&dir);
    let mut coverage = serde_json::Map::new();
    coverage.insert("evaluations".into(), json!(stats.evaluations));
    coverage.insert("distinct_nontrivial".into(), json!(stats.nontrivial.len()));
    coverage.insert("distinct_cases".into(), json!(stats.distinct.len()));
    coverage.insert("rule".into(), json!(p.rule()));
    coverage.insert("samples".into(), json!(stats.samples));
    coverage.insert("classes".into(), json!(stats.labels));
    coverage.insert("discarded".into(), json!(stats.discarded));
    coverage.insert("known_finding_hits".into(), json!(stats.known_hits));
    coverage.insert("exhaustive_subspaces".into(), json!(stats.exhaustive));
    coverage.insert(
        "exhaustive".into(),
        json!(false),
    );
    for (k, v) in &stats.extra {
        coverage.insert(k.clone(), v.clone());
    }
    let doc = json!({
        "property_id": p.id(),
        "tier": if tier == Tier::Quick { "quick" } else { "thorough" },
        "seed": seed,
        "level": "exploration",
        "coverage": Value::Object(coverage),
        "assumptions": p.assumptions(),
        "wall_s": wall_s,
        "violations": violations,
    });
    let path = dir.join(format!("{}.json", p.id()));
    std::fs::write(&path, serde_json::to_string_pretty(&doc).unwrap()).expect("write evidence");
}

/// Full check entry: returns process exit code.
pub fn check_main(p: &dyn Property, tier: Tier, seed: u64) -> i32 {
    let t0 = Instant::now();
    let findings = Findings::load(&verif_root());
    let r = run_property(p, tier, seed);
    let wall = t0.elapsed().as_secs_f64();

    // KNOWN-FINDING lines: for each listed known entry of this property
    for e in &findings.entries {
        if e.status == "known" && e.property.iter().any(|x| x == p.id()) {
            let hits = r.stats.known_hits.get(&e.id).copied().unwrap_or(0);
            println!(
                "KNOWN-FINDING: property={} {} [{}; hits this run: {}]",
                p.id(),
                e.what,
                e.id,
                hits
            );
        }
    }

    if let Some(v) = &r.violation {
        write_evidence(p, tier, seed, &r.stats, wall, 1);
        let path = write_replay(p, v, seed);
        println!("violation kind: {}", v.kind);
        println!("source:\n{}", v.case.source);
        println!("options: {:?}", v.case.options);
        println!(
            "detail: {}",
            serde_json::to_string_pretty(&v.detail).unwrap_or_default()
        );
        println!("VIOLATION property={} replay={}", p.id(), path.display());
        return 1;
    }
    if let Some(e) = &r.infra {
        eprintln!("INCONCLUSIVE property={} reason={}", p.id(), e);
        return 2;
    }
    // generator health
    for l in p.required_labels() {
        if r.stats.labels.get(l).copied().unwrap_or(0) == 0 {
            eprintln!(
                "INCONCLUSIVE property={} reason=generator unhealthy: class '{}' empty",
                p.id(),
                l
            );
            write_evidence(p, tier, seed, &r.stats, wall, 0);
            return 2;
        }
    }
    let disc: u64 = r.stats.discarded.values().sum();
    if r.stats.evaluations > 200 && disc * 5 > r.stats.evaluations * 2 {
        eprintln!(
            "INCONCLUSIVE property={} reason=generator unhealthy: {} of {} discarded {:?}",
            p.id(),
            disc,
            r.stats.evaluations,
            r.stats.discarded
        );
        write_evidence(p, tier, seed, &r.stats, wall, 0);
        return 2;
    }
    write_evidence(p, tier, seed, &r.stats, wall, 0);
    println!(
        "OK property={} tier={:?} seed={} evaluations={} distinct_nontrivial={} discarded={} known_hits={:?} wall={:.1}s",
        p.id(),
        tier,
        seed,
        r.stats.evaluations,
        r.stats.nontrivial.len(),
        disc,
        r.stats.known_hits,
        wall
    );
    0
}

/// `--replay <path>`: re-run the oracle on a saved case.
pub fn replay_main(p: &dyn Property, path: &str, seed: u64) -> i32 {
    let s = match std::fs::read_to_string(path) {
        Ok(s) => s,
        Err(e) => {
            eprintln!("cannot read {path}: {e}");
            return 2;
        }
    };
    let v: Value = serde_json::from_str(&s).expect("replay json");
    let case: Case = serde_json::from_value(v["case"].clone()).expect("replay case");
    let findings = Findings::load(&verif_root());
    let mut ctx = new_ctx(&findings, Tier::Quick, seed);
    ctx.strict = true;
    match p.check(&case, &mut ctx) {
        Verdict::Violation { kind, detail } => {
            println!("violation kind: {kind}");
            println!("source:\n{}", case.source);
            println!(
                "detail: {}",
                serde_json::to_string_pretty(&detail).unwrap_or_default()
            );
            println!("VIOLATION property={} replay={}", p.id(), path);
            1
        }
        Verdict::Known(id) => {
            println!("KNOWN-FINDING: property={} replay reproduces {}", p.id(), id);
            0
        }
        Verdict::Infra(e) => {
            eprintln!("INCONCLUSIVE {e}");
            2
        }
        v => {
            println!("replay verdict: {v:?}");
            0
        }
    }
}
