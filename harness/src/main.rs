use vjx::runner::{check_main, replay_main, Tier};

fn usage() -> ! {
    eprintln!("usage: vjx check <Cnn> --tier quick|thorough [--replay <path>] | vjx worker | vjx transform <file> [options-json]");
    std::process::exit(2)
}

fn main() {
    let args: Vec<String> = std::env::args().collect();
    if args.len() < 2 {
        usage();
    }
    match args[1].as_str() {
        "worker" => std::process::exit(vjx::worker::worker_main()),
        "transform" => {
            let src = std::fs::read_to_string(&args[2]).expect("read");
            let lang = if args[2].ends_with(".tsx") || args[2].ends_with(".ts") {
                vjx::driver::Lang::Tsx
            } else {
                vjx::driver::Lang::Jsx
            };
            let s = vjx::driver::summarize(&src, lang, args.get(3).map(|s| s.as_str()));
            if let Some(r) = &s.rejected {
                println!("REJECTED: {r}");
            }
            if let Some(p) = &s.panicked {
                println!("PANICKED: {p}");
            }
            for d in &s.diags {
                println!("DIAG: {d}");
            }
            if let Some(c) = &s.code {
                println!("{c}");
            }
        }
        "sample" => {
            // vjx sample <Cnn> <n> [seed] [--rejected]: print generated cases
            let id = args.get(2).cloned().unwrap_or_else(|| usage());
            let n: usize = args.get(3).and_then(|s| s.parse().ok()).unwrap_or(5);
            let seed: u64 = args.get(4).and_then(|s| s.parse().ok()).unwrap_or(1);
            let only_rejected = args.iter().any(|a| a == "--rejected");
            let p = vjx::props::by_id(&id).expect("unknown property");
            let mut state = seed.wrapping_mul(0x9E3779B97F4A7C15) | 1;
            let mut shown = 0;
            let mut tries = 0;
            while shown < n && tries < 100000 {
                tries += 1;
                let mut bytes = vec![0u8; p.max_bytes()];
                for b in bytes.iter_mut() {
                    state ^= state << 13;
                    state ^= state >> 7;
                    state ^= state << 17;
                    *b = (state >> 24) as u8;
                }
                let mut ch = vjx::choices::Choices::new(&bytes);
                let case = p.generate(&mut ch);
                let lang = vjx::driver::Lang::from_str(&case.lang);
                let rej = vjx::driver::parses_jsx(&case.source, lang).err();
                if only_rejected && rej.is_none() {
                    continue;
                }
                shown += 1;
                println!("=== case {shown} lang={} options={:?} labels={:?} nontrivial={} bytes_used={}", case.lang, case.options, case.labels, case.nontrivial, ch.consumed());
                println!("{}", case.source);
                if let Some(r) = rej {
                    println!("--- REJECTED: {r:?}");
                }
                if args.iter().any(|a| a == "--extra") {
                    println!("--- extra: {}", serde_json::to_string_pretty(&case.extra).unwrap());
                }
            }
        }
        "mkcorpus" => {
            // vjx mkcorpus <out_dir> <n> <root>...: copy JSX-free JS files that parse as modules
            let out = std::path::PathBuf::from(&args[2]);
            let n: usize = args[3].parse().unwrap();
            std::fs::create_dir_all(&out).unwrap();
            let mut files = vec![];
            fn walk(d: &std::path::Path, files: &mut Vec<std::path::PathBuf>) {
                if let Ok(rd) = std::fs::read_dir(d) {
                    let mut es: Vec<_> = rd.filter_map(|e| e.ok()).map(|e| e.path()).collect();
                    es.sort();
                    for p in es {
                        if p.is_dir() {
                            walk(&p, files);
                        } else if p.extension().map(|e| e == "js" || e == "mjs").unwrap_or(false) {
                            files.push(p);
                        }
                    }
                }
            }
            for root in &args[4..] {
                walk(std::path::Path::new(root), &mut files);
            }
            let stride = (files.len() / (n * 3)).max(1);
            let mut kept = 0;
            for f in files.iter().step_by(stride) {
                if kept >= n {
                    break;
                }
                let Ok(src) = std::fs::read_to_string(f) else { continue };
                if src.len() < 600 || src.len() > 30_000 || src.contains(".min.") {
                    continue;
                }
                let ok = vjx::driver::with_transform(&src, vjx::driver::Lang::Jsx, None, |t| {
                    vjx::driver::jsx_census(&t.input).total == 0 && t.panicked.is_none()
                });
                if let Ok(true) = ok {
                    kept += 1;
                    std::fs::write(out.join(format!("{kept:03}.js")), &src).unwrap();
                }
            }
            println!("kept {kept} of {} candidates", files.len());
        }
        "check" => {
            let id = args.get(2).cloned().unwrap_or_else(|| usage());
            let mut tier = match std::env::var("VERIF_TIER").as_deref() {
                Ok("thorough") => Tier::Thorough,
                _ => Tier::Quick,
            };
            let mut replay = None;
            let mut i = 3;
            while i < args.len() {
                match args[i].as_str() {
                    "--tier" => {
                        tier = if args.get(i + 1).map(|s| s.as_str()) == Some("thorough") {
                            Tier::Thorough
                        } else {
                            Tier::Quick
                        };
                        i += 2;
                    }
                    "quick" => {
                        tier = Tier::Quick;
                        i += 1;
                    }
                    "thorough" => {
                        tier = Tier::Thorough;
                        i += 1;
                    }
                    "--replay" => {
                        replay = args.get(i + 1).cloned();
                        i += 2;
                    }
                    _ => usage(),
                }
            }
            let mut seed: u64 = std::env::var("VERIF_SEED")
                .ok()
                .and_then(|s| s.parse().ok())
                .unwrap_or(1);
            if seed == 0 {
                seed = 1;
            }
            let Some(p) = vjx::props::by_id(&id) else {
                eprintln!("unknown property {id}");
                std::process::exit(2)
            };
            vjx::driver::install_panic_hook();
            let code = match replay {
                Some(path) => replay_main(p.as_ref(), &path, seed),
                None => check_main(p.as_ref(), tier, seed),
            };
            std::process::exit(code);
        }
        _ => usage(),
    }
}
