//! `vjx worker`: isolated transform process. Reads JSON-line requests {src, lang, options},
//! runs the transform on a thread with an 8 MiB stack, replies with a `Summary` JSON line.
//! A stack overflow or abort kills the process; the parent treats EOF as a crash verdict.

use std::io::{BufRead, BufReader, Write};
use std::process::{Child, ChildStdin, ChildStdout, Command, Stdio};
use std::sync::mpsc;
use std::time::Duration;

use serde_json::{json, Value};

use crate::driver::{summarize, Lang, Summary};

fn cpu_seconds() -> f64 {
    // process CPU time from /proc/self/stat (utime+stime, in clock ticks of 100 Hz)
    if let Ok(s) = std::fs::read_to_string("/proc/self/stat") {
        if let Some(rp) = s.rfind(')') {
            let f: Vec<&str> = s[rp + 2..].split(' ').collect();
            if f.len() > 13 {
                let ut: f64 = f[11].parse().unwrap_or(0.0);
                let st: f64 = f[12].parse().unwrap_or(0.0);
                return (ut + st) / 100.0;
            }
        }
    }
    0.0
}

pub const HANG_CPU_SECONDS: f64 = 20.0;

pub fn worker_main() -> i32 {
    crate::driver::install_panic_hook();
    let stdin = std::io::stdin();
    let mut out = std::io::stdout();
    for line in stdin.lock().lines() {
        let Ok(line) = line else { break };
        if line.trim().is_empty() {
            continue;
        }
        let req: Value = match serde_json::from_str(&line) {
            Ok(v) => v,
            Err(_) => continue,
        };
        let src = req["src"].as_str().unwrap_or("").to_string();
        let lang = Lang::from_str(req["lang"].as_str().unwrap_or("jsx"));
        let options = req["options"].as_str().map(|s| s.to_string());
        let (tx, rx) = mpsc::channel();
        let start_cpu = cpu_seconds();
        let h = std::thread::Builder::new()
            .stack_size(8 * 1024 * 1024)
            .spawn(move || {
                let s = summarize(&src, lang, options.as_deref());
                let _ = tx.send(s);
            })
            .expect("spawn");
        let reply: Value = loop {
            match rx.recv_timeout(Duration::from_millis(500)) {
                Ok(s) => break serde_json::to_value(&s).unwrap(),
                Err(mpsc::RecvTimeoutError::Timeout) => {
                    if cpu_seconds() - start_cpu > HANG_CPU_SECONDS {
                        let phase = crate::driver::PHASE.load(std::sync::atomic::Ordering::Relaxed);
                        let v = json!({"hang": true, "in_parser": phase == crate::driver::PHASE_PARSE});
                        let _ = writeln!(out, "{}", v);
                        let _ = out.flush();
                        std::process::exit(3);
                    }
                }
                Err(mpsc::RecvTimeoutError::Disconnected) => {
                    // thread died without sending: panic outside catch_unwind
                    break json!({"thread_died": true});
                }
            }
        };
        let _ = h.join();
        if writeln!(out, "{}", reply).is_err() {
            break;
        }
        let _ = out.flush();
    }
    0
}

pub struct WorkerChild {
    child: Child,
    stdin: ChildStdin,
    stdout: BufReader<ChildStdout>,
}

#[derive(Debug)]
pub enum WorkerReply {
    Ok(Summary),
    Hang,
    /// the watchdog fired while the SWC parser was still running (not the transform's time)
    ParserHang,
    Died(String),
}

impl WorkerChild {
    pub fn spawn() -> Result<WorkerChild, String> {
        let exe = std::env::current_exe().map_err(|e| e.to_string())?;
        let mut child = Command::new(exe)
            .arg("worker")
            .stdin(Stdio::piped())
            .stdout(Stdio::piped())
            .stderr(Stdio::null())
            .spawn()
            .map_err(|e| format!("cannot spawn worker: {e}"))?;
        let stdin = child.stdin.take().unwrap();
        let stdout = BufReader::new(child.stdout.take().unwrap());
        Ok(WorkerChild {
            child,
            stdin,
            stdout,
        })
    }

    pub fn run(&mut self, src: &str, lang: Lang, options: Option<&str>) -> WorkerReply {
        let req = json!({"src": src, "lang": lang.as_str(), "options": options});
        let mut line = req.to_string();
        line.push('\n');
        if let Err(e) = self.stdin.write_all(line.as_bytes()) {
            return WorkerReply::Died(format!("write: {e}"));
        }
        let _ = self.stdin.flush();
        let mut buf = String::new();
        match self.stdout.read_line(&mut buf) {
            Ok(0) => {
                let st = self.child.wait().map(|s| format!("{s}")).unwrap_or_default();
                WorkerReply::Died(format!("eof; exit status: {st}"))
            }
            Ok(_) => {
                let v: Value = match serde_json::from_str(&buf) {
                    Ok(v) => v,
                    Err(e) => return WorkerReply::Died(format!("bad reply: {e}")),
                };
                if v.get("hang").is_some() {
                    let _ = self.child.wait();
                    if v["in_parser"].as_bool() == Some(true) {
                        return WorkerReply::ParserHang;
                    }
                    return WorkerReply::Hang;
                }
                if v.get("thread_died").is_some() {
                    return WorkerReply::Died("worker thread died".into());
                }
                match serde_json::from_value::<Summary>(v) {
                    Ok(s) => WorkerReply::Ok(s),
                    Err(e) => WorkerReply::Died(format!("bad summary: {e}")),
                }
            }
            Err(e) => WorkerReply::Died(format!("read: {e}")),
        }
    }
}

impl Drop for WorkerChild {
    fn drop(&mut self) {
        let _ = self.child.kill();
        let _ = self.child.wait();
    }
}
