//! In-process driver: parse -> resolver -> VueJsxTransformVisitor -> (hygiene, fixer) -> codegen.
//! Mirrors what `visitor/tests/fixture.rs` and `plugin/src/lib.rs` do; Options always come
//! from JSON text through serde, exactly like the plugin entry.

use std::cell::RefCell;
use std::panic::{catch_unwind, AssertUnwindSafe};
use std::sync::{Arc, Mutex};

use swc_core::common::comments::SingleThreadedComments;
use swc_core::common::errors::{DiagnosticBuilder, Emitter, Handler, HANDLER};
use swc_core::common::sync::Lrc;
use swc_core::common::{FileName, Globals, Mark, SourceMap, GLOBALS};
use swc_core::ecma::ast::*;
use swc_core::ecma::codegen::text_writer::JsWriter;
use swc_core::ecma::codegen::{Config as CodegenConfig, Emitter as CodeEmitter};
use swc_core::ecma::parser::{parse_file_as_module, EsSyntax, Syntax, TsSyntax};
use swc_core::ecma::transforms::base::{fixer::fixer, hygiene::hygiene, resolver};
use swc_core::ecma::visit::{Visit, VisitMut, VisitMutWith, VisitWith};
use swc_vue_jsx_visitor::{Options, VueJsxTransformVisitor};

#[derive(Clone, Copy, Debug, PartialEq, Eq, Hash)]
pub enum Lang {
    Jsx,
    Tsx,
}

impl Lang {
    pub fn as_str(self) -> &'static str {
        match self {
            Lang::Jsx => "jsx",
            Lang::Tsx => "tsx",
        }
    }
    pub fn from_str(s: &str) -> Lang {
        if s == "tsx" {
            Lang::Tsx
        } else {
            Lang::Jsx
        }
    }
    pub fn syntax(self, jsx: bool) -> Syntax {
        match self {
            Lang::Jsx => Syntax::Es(EsSyntax {
                jsx,
                ..Default::default()
            }),
            Lang::Tsx => Syntax::Typescript(TsSyntax {
                tsx: jsx,
                ..Default::default()
            }),
        }
    }
}

thread_local! {
    static LAST_PANIC: RefCell<Option<String>> = const { RefCell::new(None) };
    static QUIET: RefCell<bool> = const { RefCell::new(false) };
}

/// Install (once) a panic hook that records the message + location per thread and stays silent
/// for panics that happen under `quiet_catch`.
pub fn install_panic_hook() {
    use std::sync::Once;
    static ONCE: Once = Once::new();
    ONCE.call_once(|| {
        let prev = std::panic::take_hook();
        std::panic::set_hook(Box::new(move |info| {
            let msg = if let Some(s) = info.payload().downcast_ref::<&str>() {
                s.to_string()
            } else if let Some(s) = info.payload().downcast_ref::<String>() {
                s.clone()
            } else {
                "<non-string panic>".to_string()
            };
            let loc = info
                .location()
                .map(|l| format!("{}:{}", l.file(), l.line()))
                .unwrap_or_default();
            LAST_PANIC.with(|p| *p.borrow_mut() = Some(format!("{msg} @ {loc}")));
            let quiet = QUIET.with(|q| *q.borrow());
            if !quiet {
                prev(info);
            }
        }));
    });
}

/// Run `f`, catching panics; returns Err(message @ location).
pub fn quiet_catch<R>(f: impl FnOnce() -> R) -> Result<R, String> {
    install_panic_hook();
    let old = QUIET.with(|q| std::mem::replace(&mut *q.borrow_mut(), true));
    LAST_PANIC.with(|p| *p.borrow_mut() = None);
    let r = catch_unwind(AssertUnwindSafe(f));
    QUIET.with(|q| *q.borrow_mut() = old);
    match r {
        Ok(v) => Ok(v),
        Err(_) => Err(LAST_PANIC
            .with(|p| p.borrow_mut().take())
            .unwrap_or_else(|| "<panic>".into())),
    }
}

#[derive(Clone, Default)]
struct BufEmitter(Arc<Mutex<Vec<(String, String)>>>);

impl Emitter for BufEmitter {
    fn emit(&mut self, db: &DiagnosticBuilder<'_>) {
        let level = format!("{:?}", db.diagnostic.level);
        self.0.lock().unwrap().push((level, db.diagnostic.message()));
    }
}

/// Everything observable about one run of the transform, valid inside the `GLOBALS` scope in
/// which `with_transform` invokes its callback.
pub struct Transformed {
    pub lang: Lang,
    pub cm: Lrc<SourceMap>,
    pub comments: SingleThreadedComments,
    pub unresolved_mark: Mark,
    pub top_level_mark: Mark,
    /// resolved input (after `resolver`, before the visitor)
    pub input: Module,
    /// raw visitor output (no hygiene / fixer); None if the visitor panicked
    pub raw: Option<Module>,
    /// error-level diagnostics (messages) emitted through HANDLER during the visitor pass
    pub diags: Vec<String>,
    pub panicked: Option<String>,
}

#[derive(Debug, Clone)]
pub enum Rejected {
    /// parser returned Err or recoverable errors
    Parse(String),
    /// swc parser itself panicked (not this repository's code)
    ParserPanic(String),
    /// options JSON rejected by serde
    Options(String),
}

pub fn parse_options(json: &str) -> Result<Options, String> {
    // `None` config -> Options::default(); Some(json) -> serde_json::from_str(json)
    serde_json::from_str::<Options>(json).map_err(|e| e.to_string())
}

fn parse(
    cm: &Lrc<SourceMap>,
    src: &str,
    syntax: Syntax,
    comments: Option<&SingleThreadedComments>,
) -> Result<Module, Rejected> {
    let fm = cm.new_source_file(Lrc::new(FileName::Anon), src.to_string());
    let mut errors = vec![];
    let r = quiet_catch(|| {
        parse_file_as_module(
            &fm,
            syntax,
            EsVersion::latest(),
            comments.map(|c| c as &dyn swc_core::common::comments::Comments),
            &mut errors,
        )
    });
    match r {
        Err(p) => Err(Rejected::ParserPanic(p)),
        Ok(Err(e)) => Err(Rejected::Parse(format!("{:?}", e.kind()))),
        Ok(Ok(m)) => {
            if let Some(e) = errors.first() {
                Err(Rejected::Parse(format!("recoverable: {:?}", e.kind())))
            } else if has_invalid_nodes(&m) {
                // the parser sometimes recovers silently by producing `Invalid` nodes
                // (seen: `<\0<<\0~<\0` as TSX); such a tree is not an accepted module
                Err(Rejected::Parse("invalid-node-in-ast".into()))
            } else {
                Ok(m)
            }
        }
    }
}

/// Parse `src` (JSX enabled), resolve, run the visitor under a capturing HANDLER, and hand the
/// result to `f` while the syntax-context globals are still alive.
/// Which stage the (single-job) worker process is in: a CPU-time watchdog that fires while the
/// SWC parser is still running says nothing about the transform (the module has not been
/// accepted yet).
pub static PHASE: std::sync::atomic::AtomicU8 = std::sync::atomic::AtomicU8::new(0);
pub const PHASE_PARSE: u8 = 1;
pub const PHASE_TRANSFORM: u8 = 2;

pub fn with_transform<R>(
    src: &str,
    lang: Lang,
    options_json: Option<&str>,
    f: impl FnOnce(&Transformed) -> R,
) -> Result<R, Rejected> {
    let options = match options_json {
        None => Options::default(),
        Some(j) => parse_options(j).map_err(Rejected::Options)?,
    };
    GLOBALS.set(&Globals::new(), || {
        let cm: Lrc<SourceMap> = Default::default();
        let comments = SingleThreadedComments::default();
        PHASE.store(PHASE_PARSE, std::sync::atomic::Ordering::Relaxed);
        let mut module = parse(&cm, src, lang.syntax(true), Some(&comments))?;
        PHASE.store(PHASE_TRANSFORM, std::sync::atomic::Ordering::Relaxed);
        let unresolved_mark = Mark::new();
        let top_level_mark = Mark::new();
        module.visit_mut_with(&mut resolver(
            unresolved_mark,
            top_level_mark,
            lang == Lang::Tsx,
        ));
        let input = module.clone();

        let buf = BufEmitter::default();
        let handler = Handler::with_emitter(true, false, Box::new(buf.clone()));
        let res = quiet_catch(|| {
            HANDLER.set(&handler, || {
                let mut v =
                    VueJsxTransformVisitor::new(options, unresolved_mark, Some(comments.clone()));
                // identical to `program.apply(visit_mut_pass(..))` for a Module program
                let mut m = module;
                m.visit_mut_with(&mut v);
                m
            })
        });
        let diags: Vec<String> = buf
            .0
            .lock()
            .unwrap()
            .iter()
            .filter(|(lvl, _)| lvl != "Warning" && lvl != "Note" && lvl != "Help")
            .map(|(_, m)| m.clone())
            .collect();
        let (raw, panicked) = match res {
            Ok(m) => (Some(m), None),
            Err(p) => (None, Some(p)),
        };
        let t = Transformed {
            lang,
            cm,
            comments,
            unresolved_mark,
            top_level_mark,
            input,
            raw,
            diags,
            panicked,
        };
        Ok(f(&t))
    })
}

impl Transformed {
    /// Print a module the way the real pipeline would after the plugin: hygiene, fixer, codegen.
    pub fn print_final(&self, m: &Module) -> Result<String, String> {
        let mut m = m.clone();
        let comments = deep_clone_comments(&self.comments);
        quiet_catch(|| {
            m.visit_mut_with(&mut hygiene());
            m.visit_mut_with(&mut fixer(Some(&comments)));
            print_module(&self.cm, &m, Some(&comments))
        })
    }

    /// Like `print_final` but without comments (comment placement does not survive swc's own
    /// print / parse round trip, so text comparisons across a re-parse ignore comments).
    pub fn print_final_nocomments(&self, m: &Module) -> Result<String, String> {
        let mut m = m.clone();
        let comments = deep_clone_comments(&self.comments);
        quiet_catch(|| {
            m.visit_mut_with(&mut hygiene());
            m.visit_mut_with(&mut fixer(Some(&comments)));
            print_module(&self.cm, &m, None)
        })
    }

    /// Printed visitor output (hygiene + fixer).
    pub fn output_code(&self) -> Option<Result<String, String>> {
        self.raw.as_ref().map(|m| self.print_final(m))
    }

    /// Print without hygiene/fixer (used for byte-level determinism comparisons too).
    pub fn print_raw(&self, m: &Module) -> Result<String, String> {
        quiet_catch(|| print_module(&self.cm, m, Some(&self.comments)))
    }
}

/// codegen *takes* comments out of the store while printing: print from a deep copy
fn deep_clone_comments(c: &SingleThreadedComments) -> SingleThreadedComments {
    let (l, t) = c.borrow_all();
    let l2 = (*l).clone();
    let t2 = (*t).clone();
    drop(l);
    drop(t);
    SingleThreadedComments::from_leading_and_trailing(
        std::rc::Rc::new(std::cell::RefCell::new(l2)),
        std::rc::Rc::new(std::cell::RefCell::new(t2)),
    )
}

pub fn print_module(
    cm: &Lrc<SourceMap>,
    m: &Module,
    comments: Option<&SingleThreadedComments>,
) -> String {
    let copy = comments.map(deep_clone_comments);
    let comments = copy.as_ref();
    let mut buf = vec![];
    {
        let wr = JsWriter::new(cm.clone(), "\n", &mut buf, None);
        let mut emitter = CodeEmitter {
            cfg: CodegenConfig::default().with_target(EsVersion::latest()),
            cm: cm.clone(),
            comments: comments.map(|c| c as &dyn swc_core::common::comments::Comments),
            wr,
        };
        emitter.emit_module(m).expect("codegen failed");
    }
    String::from_utf8_lossy(&buf).into_owned()
}

/// Parse text as a *plain* (JSX disabled) module of the given language. Own globals.
pub fn parses_plain(src: &str, lang: Lang) -> Result<(), String> {
    GLOBALS.set(&Globals::new(), || {
        let cm: Lrc<SourceMap> = Default::default();
        match parse(&cm, src, lang.syntax(false), None) {
            Ok(_) => Ok(()),
            Err(e) => Err(format!("{e:?}")),
        }
    })
}

/// Parse with JSX on; Ok if in domain.
pub fn parses_jsx(src: &str, lang: Lang) -> Result<(), Rejected> {
    GLOBALS.set(&Globals::new(), || {
        let cm: Lrc<SourceMap> = Default::default();
        parse(&cm, src, lang.syntax(true), None).map(|_| ())
    })
}

/// Count JSX nodes of any kind in a module.
#[derive(Default, Debug, Clone)]
pub struct JsxCensus {
    pub total: usize,
    pub kinds: Vec<&'static str>,
}

struct CensusV<'a>(&'a mut JsxCensus);
macro_rules! census {
    ($name:ident, $ty:ty, $label:expr) => {
        fn $name(&mut self, n: &$ty) {
            self.0.total += 1;
            if !self.0.kinds.contains(&$label) {
                self.0.kinds.push($label);
            }
            n.visit_children_with(self);
        }
    };
}
impl Visit for CensusV<'_> {
    census!(visit_jsx_element, JSXElement, "JSXElement");
    census!(visit_jsx_fragment, JSXFragment, "JSXFragment");
    census!(visit_jsx_member_expr, JSXMemberExpr, "JSXMemberExpr");
    census!(visit_jsx_namespaced_name, JSXNamespacedName, "JSXNamespacedName");
    census!(visit_jsx_empty_expr, JSXEmptyExpr, "JSXEmptyExpr");
    census!(visit_jsx_text, JSXText, "JSXText");
    census!(visit_jsx_expr_container, JSXExprContainer, "JSXExprContainer");
    census!(visit_jsx_spread_child, JSXSpreadChild, "JSXSpreadChild");
    census!(visit_jsx_attr, JSXAttr, "JSXAttr");
    census!(visit_jsx_opening_element, JSXOpeningElement, "JSXOpeningElement");
    census!(visit_jsx_closing_element, JSXClosingElement, "JSXClosingElement");
}

pub fn jsx_census(m: &Module) -> JsxCensus {
    let mut c = JsxCensus::default();
    m.visit_with(&mut CensusV(&mut c));
    c
}

/// Identifiers with an empty symbol anywhere in the module ("placeholder" identifiers).
pub fn count_empty_idents(m: &Module) -> usize {
    struct V(usize);
    impl Visit for V {
        fn visit_ident(&mut self, i: &Ident) {
            if i.sym.is_empty() {
                self.0 += 1;
            }
        }
        fn visit_ident_name(&mut self, i: &IdentName) {
            if i.sym.is_empty() {
                self.0 += 1;
            }
        }
    }
    let mut v = V(0);
    m.visit_with(&mut v);
    v.0
}

/// Strip TypeScript-only syntax so that the printed module can run in node. Trusted base of
/// C16-C20; covers only the constructs the TSX generators emit.
pub struct TsEraser;

impl VisitMut for TsEraser {
    fn visit_mut_module_items(&mut self, items: &mut Vec<ModuleItem>) {
        items.retain(|it| match it {
            ModuleItem::Stmt(Stmt::Decl(Decl::TsInterface(..) | Decl::TsTypeAlias(..))) => false,
            ModuleItem::ModuleDecl(ModuleDecl::ExportDecl(ExportDecl {
                decl: Decl::TsInterface(..) | Decl::TsTypeAlias(..),
                ..
            })) => false,
            ModuleItem::ModuleDecl(ModuleDecl::Import(i)) => !i.type_only,
            _ => true,
        });
        for it in items.iter_mut() {
            if let ModuleItem::ModuleDecl(ModuleDecl::Import(i)) = it {
                i.specifiers.retain(|s| match s {
                    ImportSpecifier::Named(n) => !n.is_type_only,
                    _ => true,
                });
            }
        }
        items.visit_mut_children_with(self);
    }
    fn visit_mut_stmts(&mut self, stmts: &mut Vec<Stmt>) {
        stmts.retain(|s| {
            !matches!(
                s,
                Stmt::Decl(Decl::TsInterface(..) | Decl::TsTypeAlias(..))
            )
        });
        stmts.visit_mut_children_with(self);
    }
    fn visit_mut_binding_ident(&mut self, n: &mut BindingIdent) {
        n.type_ann = None;
        n.id.optional = false;
        n.visit_mut_children_with(self);
    }
    fn visit_mut_object_pat(&mut self, n: &mut ObjectPat) {
        n.type_ann = None;
        n.optional = false;
        n.visit_mut_children_with(self);
    }
    fn visit_mut_array_pat(&mut self, n: &mut ArrayPat) {
        n.type_ann = None;
        n.optional = false;
        n.visit_mut_children_with(self);
    }
    fn visit_mut_rest_pat(&mut self, n: &mut RestPat) {
        n.type_ann = None;
        n.visit_mut_children_with(self);
    }
    fn visit_mut_function(&mut self, n: &mut Function) {
        n.return_type = None;
        n.type_params = None;
        // the TS `this` pseudo-parameter
        n.params.retain(|p| !matches!(&p.pat, Pat::Ident(b) if b.id.sym == "this"));
        n.visit_mut_children_with(self);
    }
    fn visit_mut_arrow_expr(&mut self, n: &mut ArrowExpr) {
        n.return_type = None;
        n.type_params = None;
        n.visit_mut_children_with(self);
    }
    fn visit_mut_call_expr(&mut self, n: &mut CallExpr) {
        n.type_args = None;
        n.visit_mut_children_with(self);
    }
    fn visit_mut_new_expr(&mut self, n: &mut NewExpr) {
        n.type_args = None;
        n.visit_mut_children_with(self);
    }
    fn visit_mut_var_declarator(&mut self, n: &mut VarDeclarator) {
        n.definite = false;
        n.visit_mut_children_with(self);
    }
    fn visit_mut_class_prop(&mut self, n: &mut ClassProp) {
        n.type_ann = None;
        n.accessibility = None;
        n.definite = false;
        n.readonly = false;
        n.visit_mut_children_with(self);
    }
    fn visit_mut_simple_assign_target(&mut self, t: &mut SimpleAssignTarget) {
        // `(x as T) = v`, `x! = v`: the wrapped expression is the target
        loop {
            let inner = match t {
                SimpleAssignTarget::TsAs(TsAsExpr { expr, .. })
                | SimpleAssignTarget::TsNonNull(TsNonNullExpr { expr, .. })
                | SimpleAssignTarget::TsSatisfies(TsSatisfiesExpr { expr, .. })
                | SimpleAssignTarget::TsTypeAssertion(TsTypeAssertion { expr, .. })
                | SimpleAssignTarget::Paren(ParenExpr { expr, .. }) => {
                    std::mem::replace(&mut **expr, Expr::Invalid(Invalid::default()))
                }
                _ => break,
            };
            match SimpleAssignTarget::try_from(Box::new(inner)) {
                Ok(nt) => *t = nt,
                Err(_) => break,
            }
        }
        t.visit_mut_children_with(self);
    }
    fn visit_mut_expr(&mut self, e: &mut Expr) {
        loop {
            match e {
                Expr::TsAs(TsAsExpr { expr, .. })
                | Expr::TsNonNull(TsNonNullExpr { expr, .. })
                | Expr::TsSatisfies(TsSatisfiesExpr { expr, .. })
                | Expr::TsTypeAssertion(TsTypeAssertion { expr, .. })
                | Expr::TsConstAssertion(TsConstAssertion { expr, .. }) => {
                    let inner = std::mem::replace(&mut **expr, Expr::Invalid(Invalid::default()));
                    *e = inner;
                }
                _ => break,
            }
        }
        e.visit_mut_children_with(self);
    }
}

/// Replace every JSX expression by an array literal of the expressions written inside it
/// (attribute values, spread arguments, children), each staying in the function / class context
/// it was written in. The result is a JSX-free module that has an early error exactly when the
/// input's non-JSX parts have one.
pub struct JsxFlattener;

impl JsxFlattener {
    fn arr(items: Vec<Expr>) -> Expr {
        Expr::Array(ArrayLit {
            span: Default::default(),
            elems: items
                .into_iter()
                .map(|e| Some(ExprOrSpread { spread: None, expr: Box::new(e) }))
                .collect(),
        })
    }
    fn children(ch: &[JSXElementChild], out: &mut Vec<Expr>) {
        for c in ch {
            match c {
                JSXElementChild::JSXExprContainer(JSXExprContainer { expr: JSXExpr::Expr(e), .. }) => {
                    out.push((**e).clone())
                }
                JSXElementChild::JSXSpreadChild(s) => out.push((*s.expr).clone()),
                JSXElementChild::JSXElement(el) => out.push(Expr::JSXElement(el.clone())),
                JSXElementChild::JSXFragment(f) => out.push(Expr::JSXFragment(f.clone())),
                _ => {}
            }
        }
    }
    fn element(el: &JSXElement) -> Expr {
        let mut out = vec![];
        for a in &el.opening.attrs {
            match a {
                JSXAttrOrSpread::SpreadElement(s) => out.push((*s.expr).clone()),
                JSXAttrOrSpread::JSXAttr(a) => match &a.value {
                    Some(JSXAttrValue::JSXExprContainer(JSXExprContainer { expr: JSXExpr::Expr(e), .. })) => {
                        out.push((**e).clone())
                    }
                    Some(JSXAttrValue::JSXElement(e)) => out.push(Expr::JSXElement(e.clone())),
                    Some(JSXAttrValue::JSXFragment(f)) => out.push(Expr::JSXFragment(f.clone())),
                    _ => {}
                },
            }
        }
        Self::children(&el.children, &mut out);
        Self::arr(out)
    }
}

impl VisitMut for JsxFlattener {
    fn visit_mut_expr(&mut self, e: &mut Expr) {
        match e {
            Expr::JSXElement(el) => *e = Self::element(el),
            Expr::JSXFragment(f) => {
                let mut out = vec![];
                Self::children(&f.children, &mut out);
                *e = Self::arr(out);
            }
            Expr::JSXMember(..) | Expr::JSXNamespacedName(..) | Expr::JSXEmpty(..) => *e = Self::arr(vec![]),
            _ => {}
        }
        e.visit_mut_children_with(self);
    }
}

impl Transformed {
    /// (flattened + erased input, erased output) printed for a syntax check by another engine
    pub fn js_for_syntax_check(&self) -> Option<(String, String)> {
        let raw = self.raw.as_ref()?;
        let mut inp = self.input.clone();
        inp.visit_mut_with(&mut JsxFlattener);
        let mut out = raw.clone();
        if self.lang != Lang::Jsx {
            inp.visit_mut_with(&mut TsEraser);
            out.visit_mut_with(&mut TsEraser);
        }
        let a = self.print_final_nocomments(&inp).ok()?;
        let b = self.print_final_nocomments(&out).ok()?;
        Some((a, b))
    }
}

/// One complete run boiled down to comparable bytes.
#[derive(Debug, Clone, PartialEq, Eq, serde::Serialize, serde::Deserialize)]
pub struct Summary {
    pub rejected: Option<String>,
    pub panicked: Option<String>,
    /// raw print (no hygiene) of the visitor output
    pub raw_code: Option<String>,
    /// final print (hygiene + fixer)
    pub code: Option<String>,
    pub print_error: Option<String>,
    pub diags: Vec<String>,
}

pub fn summarize(src: &str, lang: Lang, options_json: Option<&str>) -> Summary {
    match with_transform(src, lang, options_json, |t| {
        let mut s = Summary {
            rejected: None,
            panicked: t.panicked.clone(),
            raw_code: None,
            code: None,
            print_error: None,
            diags: t.diags.clone(),
        };
        if let Some(raw) = &t.raw {
            match t.print_raw(raw) {
                Ok(c) => s.raw_code = Some(c),
                Err(e) => s.print_error = Some(e),
            }
            match t.print_final(raw) {
                Ok(c) => s.code = Some(c),
                Err(e) => s.print_error = Some(e),
            }
        }
        s
    }) {
        Ok(s) => s,
        Err(r) => Summary {
            rejected: Some(format!("{r:?}")),
            panicked: None,
            raw_code: None,
            code: None,
            print_error: None,
            diags: vec![],
        },
    }
}

/// Free (unresolved) identifier names of a source text: parse, run `resolver`, collect every
/// identifier whose syntax context carries the unresolved mark.
pub fn free_vars_of_code(
    src: &str,
    lang: Lang,
    jsx: bool,
) -> Result<std::collections::BTreeSet<String>, String> {
    GLOBALS.set(&Globals::new(), || {
        let cm: Lrc<SourceMap> = Default::default();
        let mut m = parse(&cm, src, lang.syntax(jsx), None).map_err(|e| format!("{e:?}"))?;
        let unresolved = Mark::new();
        let top = Mark::new();
        m.visit_mut_with(&mut resolver(unresolved, top, lang == Lang::Tsx));
        Ok(free_vars(&m, unresolved))
    })
}

pub fn free_vars(m: &Module, unresolved: Mark) -> std::collections::BTreeSet<String> {
    struct V {
        unresolved: Mark,
        out: std::collections::BTreeSet<String>,
    }
    impl Visit for V {
        fn visit_ident(&mut self, i: &Ident) {
            if i.ctxt.has_mark(self.unresolved) {
                self.out.insert(i.sym.to_string());
            }
        }
    }
    let mut v = V {
        unresolved,
        out: Default::default(),
    };
    m.visit_with(&mut v);
    v.out
}

/// Occurrence counts of generated identifiers in the raw output: identifiers whose syntax
/// context does not occur anywhere in the resolved input (and is not the empty context).
pub fn generated_ident_counts(t: &Transformed) -> Vec<(String, usize)> {
    use swc_core::common::SyntaxContext;
    struct Ctxts(std::collections::HashSet<SyntaxContext>);
    impl Visit for Ctxts {
        fn visit_ident(&mut self, i: &Ident) {
            self.0.insert(i.ctxt);
        }
    }
    let mut input_ctxts = Ctxts(Default::default());
    t.input.visit_with(&mut input_ctxts);
    struct Count<'a> {
        input: &'a std::collections::HashSet<SyntaxContext>,
        counts: std::collections::BTreeMap<(String, u32), usize>,
    }
    impl Visit for Count<'_> {
        fn visit_ident(&mut self, i: &Ident) {
            if i.ctxt != SyntaxContext::empty() && !self.input.contains(&i.ctxt) {
                *self
                    .counts
                    .entry((i.sym.to_string(), i.ctxt.as_u32()))
                    .or_default() += 1;
            }
        }
    }
    let mut c = Count {
        input: &input_ctxts.0,
        counts: Default::default(),
    };
    if let Some(raw) = &t.raw {
        raw.visit_with(&mut c);
    }
    c.counts.into_iter().map(|((s, _), n)| (s, n)).collect()
}

/// serde JSON of a module (swc's `serde-impl`), for the generic AST comparer.
pub fn module_json(m: &Module) -> serde_json::Value {
    serde_json::to_value(m).unwrap_or(serde_json::Value::Null)
}

/// AST as JSON without positions, syntax contexts, literal source text and parentheses: two
/// modules with the same shape mean the same program.
fn shape(v: &serde_json::Value) -> serde_json::Value {
    use serde_json::Value;
    match v {
        Value::Object(o) => {
            // bare positions (e.g. the `...` of a spread element): presence only
            if o.len() == 2 && o.get("start").map(|v| v.is_number()) == Some(true) && o.get("end").map(|v| v.is_number()) == Some(true) {
                return Value::Bool(true);
            }
            if o.len() == 3 && o.contains_key("start") && o.contains_key("end") && o.contains_key("ctxt") {
                return Value::Bool(true);
            }
            let ty = o.get("type").and_then(|t| t.as_str()).unwrap_or("");
            if ty == "ParenthesisExpression" {
                if let Some(e) = o.get("expression") {
                    return shape(e);
                }
            }
            if ty == "TsParenthesizedType" {
                if let Some(e) = o.get("typeAnnotation") {
                    return shape(e);
                }
            }
            let mut out = serde_json::Map::new();
            for (k, v) in o {
                if k == "span" || k == "ctxt" || k == "raw" {
                    continue;
                }
                out.insert(k.clone(), shape(v));
            }
            Value::Object(out)
        }
        Value::Array(a) => Value::Array(a.iter().map(shape).collect()),
        other => other.clone(),
    }
}

/// Does swc's own hygiene + fixer + codegen print `m` as text that parses back to the same
/// program? (Seen not to: `((a, b) as any)` loses its parentheses.) None = cannot tell.
pub fn print_is_faithful(t: &Transformed, m: &Module) -> Option<bool> {
    // compare what is printed (after hygiene renamed bindings, before the fixer added the
    // parentheses the text needs) with what the text parses to
    let mut renamed = m.clone();
    quiet_catch(|| renamed.visit_mut_with(&mut hygiene())).ok()?;
    let m = &renamed;
    let code = t.print_final(m).ok()?;
    let lang = t.lang;
    let back = GLOBALS.set(&Globals::new(), || {
        let cm: Lrc<SourceMap> = Default::default();
        parse(&cm, &code, lang.syntax(true), None).ok()
    })?;
    let (a, b) = (shape(&module_json(m)), shape(&module_json(&back)));
    if a != b && std::env::var("VJX_DEBUG_FAITHFUL").is_ok() {
        let _ = std::fs::write("/tmp/faithful_a.json", serde_json::to_string_pretty(&a).unwrap_or_default());
        let _ = std::fs::write("/tmp/faithful_b.json", serde_json::to_string_pretty(&b).unwrap_or_default());
    }
    Some(a == b)
}


fn has_invalid_nodes(m: &Module) -> bool {
    struct V(bool);
    impl Visit for V {
        fn visit_invalid(&mut self, _: &Invalid) {
            self.0 = true;
        }
    }
    let mut v = V(false);
    m.visit_with(&mut v);
    v.0
}
