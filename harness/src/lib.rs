pub mod astcmp;
pub mod choices;
pub mod driver;
pub mod gen;
pub mod node;
pub mod props;
pub mod runner;
pub mod worker;
