//! Entry points of the libFuzzer targets (/verif/fuzz): same decoders and oracles as the
//! proptest-driven checks. A violation writes the case next to the artifact and aborts.

use std::sync::OnceLock;

use crate::choices::Choices;
use crate::driver::{summarize, Lang};
use crate::runner::{Case, Findings, Verdict};

fn oracle() -> &'static str {
    static O: OnceLock<String> = OnceLock::new();
    O.get_or_init(|| std::env::var("VJX_ORACLE").unwrap_or_else(|_| "C07".into()))
}

pub fn decode_structured(oracle: &str, data: &[u8]) -> Case {
    let mut c = Choices::new(data);
    match oracle {
        "C08" => crate::props::c08::gen_case(&mut c),
        "C09" => crate::props::c09::gen_case(&mut c),
        "C14" => crate::props::c14::features_case(&mut c),
        _ => crate::props::c07::gen_case(&mut c, true),
    }
}

pub fn decode_raw(data: &[u8]) -> Option<Case> {
    if data.len() < 2 {
        return None;
    }
    let src = std::str::from_utf8(&data[1..]).ok()?;
    let b = data[0];
    let opts = crate::gen::opts::Opts {
        transform_on: b & 1 != 0,
        optimize: b & 2 != 0,
        merge_props: b & 4 == 0,
        enable_object_slots: b & 8 == 0,
        resolve_type: b & 16 != 0,
        pragma: if b & 32 != 0 { Some("h".into()) } else { None },
        patterns: if b & 64 != 0 { vec!["^i-".into()] } else { vec![] },
    };
    let lang = if b & 128 != 0 { "tsx" } else { "jsx" };
    Some(Case::new(src.to_string(), lang, Some(opts.json())))
}

/// in-process C08 oracle (a stack overflow / abort is a libFuzzer crash by itself)
fn judge_c08_inproc(case: &Case) -> Verdict {
    let lang = Lang::from_str(&case.lang);
    let a = summarize(&case.source, lang, case.options.as_deref());
    if a.rejected.is_some() {
        return Verdict::Discard("parser-rejected".into());
    }
    if let Some(p) = &a.panicked {
        return Verdict::Violation {
            kind: "panic".into(),
            detail: serde_json::json!({"message": p}),
        };
    }
    let b = summarize(&case.source, lang, case.options.as_deref());
    if a != b {
        return Verdict::Violation {
            kind: "nondeterministic".into(),
            detail: serde_json::json!({"a": a, "b": b}),
        };
    }
    Verdict::Pass
}

pub fn judge(oracle: &str, case: &Case) -> Verdict {
    static F: OnceLock<Findings> = OnceLock::new();
    let findings = F.get_or_init(|| Findings::load(&crate::runner::verif_root()));
    match oracle {
        "C08" => judge_c08_inproc(case),
        "C09" => crate::props::c09::judge(case),
        "C14" => {
            if case.extra.get("kind").is_some() {
                crate::props::c14::check_pair(case)
            } else {
                Verdict::Pass
            }
        }
        _ => crate::props::c07::judge(case, findings),
    }
}

fn report(oracle: &str, case: &Case, v: &Verdict) {
    if let Verdict::Violation { kind, detail } = v {
        let dir = std::env::var("VJX_FUZZ_OUT").unwrap_or_else(|_| ".".into());
        let doc = serde_json::json!({"property": oracle, "kind": kind, "detail": detail, "case": case});
        let path = format!("{dir}/violation-{}-{:016x}.json", oracle, case.key());
        let _ = std::fs::write(&path, serde_json::to_string_pretty(&doc).unwrap_or_default());
        eprintln!("VJX-VIOLATION {oracle} {kind} {path}");
        std::process::abort();
    }
}

pub fn run_structured(data: &[u8]) {
    crate::driver::install_panic_hook();
    let o = oracle();
    let case = decode_structured(o, data);
    let v = judge(o, &case);
    report(o, &case, &v);
}

pub fn run_raw(data: &[u8]) {
    crate::driver::install_panic_hook();
    let o = oracle();
    let Some(case) = decode_raw(data) else { return };
    if o == "C14" {
        return;
    }
    let v = judge(o, &case);
    report(o, &case, &v);
}
