//! Choice-sequence reader. Every generator is a deterministic decoder over a byte string;
//! byte 0 / exhausted input always decodes to the first (simplest) alternative, and the map
//! from byte to index is monotone, so shrinking the bytes shrinks the case.

pub struct Choices<'a> {
    data: &'a [u8],
    pos: usize,
}

impl<'a> Choices<'a> {
    pub fn new(data: &'a [u8]) -> Self {
        Choices { data, pos: 0 }
    }

    pub fn byte(&mut self) -> u8 {
        let b = self.data.get(self.pos).copied().unwrap_or(0);
        self.pos += 1;
        b
    }

    pub fn exhausted(&self) -> bool {
        self.pos >= self.data.len()
    }

    pub fn consumed(&self) -> usize {
        self.pos.min(self.data.len())
    }

    /// index in 0..n, monotone in the byte (n <= 256)
    pub fn pick(&mut self, n: usize) -> usize {
        debug_assert!(n >= 1);
        if n <= 1 {
            return 0;
        }
        if n <= 256 {
            (self.byte() as usize * n) >> 8
        } else {
            let hi = self.byte() as usize;
            let lo = self.byte() as usize;
            (((hi << 8) | lo) * n) >> 16
        }
    }

    pub fn bool(&mut self) -> bool {
        self.byte() >= 128
    }

    /// true with probability roughly num/den
    pub fn chance(&mut self, num: usize, den: usize) -> bool {
        // monotone: small bytes -> false
        let b = self.byte() as usize;
        b * den >= (den - num) * 256
    }

    /// length in 0..=max
    pub fn len(&mut self, max: usize) -> usize {
        self.pick(max + 1)
    }

    pub fn range(&mut self, lo: usize, hi_incl: usize) -> usize {
        lo + self.pick(hi_incl - lo + 1)
    }

    pub fn choose<T: Copy>(&mut self, xs: &[T]) -> T {
        xs[self.pick(xs.len())]
    }

    /// weighted pick: weights[i] relative; index 0 is reached by byte 0
    pub fn weighted(&mut self, weights: &[usize]) -> usize {
        let total: usize = weights.iter().sum();
        let mut x = (self.byte() as usize * total) >> 8;
        for (i, w) in weights.iter().enumerate() {
            if x < *w {
                return i;
            }
            x -= *w;
        }
        weights.len() - 1
    }
}

/// FNV-1a 64 for distinct counting.
pub fn hash64(s: &str) -> u64 {
    let mut h: u64 = 0xcbf29ce484222325;
    for b in s.as_bytes() {
        h ^= *b as u64;
        h = h.wrapping_mul(0x100000001b3);
    }
    h
}
