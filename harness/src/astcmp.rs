//! Generic lock-step embedding of the input AST in the output AST (frame property, C09),
//! over swc's serde representation with spans and syntax contexts erased.

use serde_json::Value;

fn ty(v: &Value) -> &str {
    v.get("type").and_then(|t| t.as_str()).unwrap_or("")
}

fn is_jsx_expr(v: &Value) -> bool {
    matches!(ty(v), "JSXElement" | "JSXFragment")
}

const SKIP_KEYS: &[&str] = &["span", "ctxt"];

fn is_stmt_like(v: &Value) -> bool {
    let t = ty(v);
    t.ends_with("Statement")
        || t.ends_with("Declaration")
        || t.starts_with("Export")
        || t.starts_with("Import")
        || t.starts_with("Ts") && (t.ends_with("Declaration") || t == "TsModuleDeclaration" || t == "TsImportEqualsDeclaration" || t == "TsExportAssignment" || t == "TsNamespaceExportDeclaration")
}

fn ident_name(v: &Value) -> Option<&str> {
    if ty(v) == "Identifier" {
        v.get("value").and_then(|s| s.as_str())
    } else {
        None
    }
}

/// look through redundant parentheses
fn unparen(mut v: &Value) -> &Value {
    while ty(v) == "ParenthesisExpression" {
        v = &v["expression"];
    }
    v
}

/// Is there a call of the `defineComponent` binding imported by name from "vue" (callee possibly
/// in parentheses) anywhere in the tree?
pub fn has_define_component_call(v: &Value, dc_ctxt: Option<u64>) -> bool {
    if dc_ctxt.is_none() {
        return false;
    }
    match v {
        Value::Object(o) => {
            if ty(v) == "CallExpression" {
                let callee = unparen(&v["callee"]);
                if ident_name(callee) == Some("defineComponent") && callee["ctxt"].as_u64() == dc_ctxt {
                    return true;
                }
            }
            o.values().any(|x| has_define_component_call(x, dc_ctxt))
        }
        Value::Array(a) => a.iter().any(|x| has_define_component_call(x, dc_ctxt)),
        _ => false,
    }
}

/// An output item that the transform is allowed to add to a statement list.
fn allowed_generated(item: &Value) -> bool {
    match ty(item) {
        "ImportDeclaration" => {
            let src = item["source"]["value"].as_str().unwrap_or("");
            src == "vue" || src == "@vue/babel-helper-vue-transform-on"
        }
        "FunctionDeclaration" => item["identifier"]["value"].as_str() == Some("_isSlot"),
        "VariableDeclaration" => {
            let kind = item["kind"].as_str().unwrap_or("");
            (kind == "let" || kind == "const")
                && item["declarations"]
                    .as_array()
                    .map(|ds| {
                        !ds.is_empty()
                            && ds.iter().all(|d| {
                                ident_name(&d["id"]).map(|n| n.starts_with('_')).unwrap_or(false)
                            })
                    })
                    .unwrap_or(false)
        }
        _ => false,
    }
}

pub struct Cmp {
    pub resolve_type: bool,
    /// syntax context of the `defineComponent` binding imported by name from "vue" (only calls
    /// of that binding may be augmented)
    pub dc_ctxt: Option<u64>,
}

/// find `import { defineComponent } from "vue"` in a module body and return the local's ctxt
pub fn vue_define_component_ctxt(body: &Value) -> Option<u64> {
    for item in body.as_array()? {
        if ty(item) == "ImportDeclaration" && item["source"]["value"].as_str() == Some("vue") {
            for sp in item["specifiers"].as_array()? {
                if ty(sp) == "ImportSpecifier"
                    && sp["imported"].is_null()
                    && sp["local"]["value"].as_str() == Some("defineComponent")
                {
                    return sp["local"]["ctxt"].as_u64();
                }
            }
        }
    }
    None
}

impl Cmp {
    pub fn embed(&self, inp: &Value, out: &Value, path: &str) -> Result<(), String> {
        if is_jsx_expr(inp) {
            return Ok(());
        }
        match (inp, out) {
            (Value::Object(i), Value::Object(o)) => {
                let it = ty(inp);
                let ot = ty(out);
                // arrow with expression body may become a block that only holds declarations
                if it == "ArrowFunctionExpression" && ot == "ArrowFunctionExpression" {
                    let ib = &inp["body"];
                    let ob = &out["body"];
                    if ty(ib) != "BlockStatement" && ty(ob) == "BlockStatement" {
                        // only an arrow whose own body holds JSX can need declarations
                        if !contains_jsx(ib) {
                            return Err(format!(
                                "{path}.body: expression body of a JSX-free arrow became a block"
                            ));
                        }
                        let stmts = ob["stmts"].as_array().cloned().unwrap_or_default();
                        let Some((last, decls)) = stmts.split_last() else {
                            return Err(format!("{path}.body: empty block"));
                        };
                        if ty(last) != "ReturnStatement" {
                            return Err(format!("{path}.body: block does not end in return"));
                        }
                        for d in decls {
                            if !allowed_generated(d) {
                                return Err(format!("{path}.body: unexpected statement {}", ty(d)));
                            }
                        }
                        self.embed(ib, &last["argument"], &format!("{path}.body"))?;
                        for (k, iv) in i {
                            if k == "body" || SKIP_KEYS.contains(&k.as_str()) {
                                continue;
                            }
                            self.embed(iv, o.get(k).unwrap_or(&Value::Null), &format!("{path}.{k}"))?;
                        }
                        return Ok(());
                    }
                }
                if it != ot {
                    return Err(format!("{path}: node type {it:?} became {ot:?}"));
                }
                // resolveType: calls of `defineComponent` may gain / wrap their second argument
                if self.resolve_type
                    && it == "CallExpression"
                    && ident_name(unparen(&inp["callee"])) == Some("defineComponent")
                    && self.dc_ctxt.is_some()
                    && unparen(&inp["callee"])["ctxt"].as_u64() == self.dc_ctxt
                {
                    return self.embed_define_component(inp, out, path);
                }
                for (k, iv) in i {
                    if SKIP_KEYS.contains(&k.as_str()) {
                        continue;
                    }
                    let ov = o.get(k).unwrap_or(&Value::Null);
                    self.embed(iv, ov, &format!("{path}.{k}"))?;
                }
                for k in o.keys() {
                    if !i.contains_key(k) && !o[k].is_null() {
                        return Err(format!("{path}.{k}: field appeared"));
                    }
                }
                Ok(())
            }
            (Value::Array(i), Value::Array(o)) => {
                let stmt_list = i.iter().chain(o.iter()).any(is_stmt_like)
                    && i.iter().chain(o.iter()).all(|x| is_stmt_like(x) || x.is_null());
                if stmt_list {
                    let mut j = 0;
                    for (n, item) in i.iter().enumerate() {
                        // a directive prologue stays one: nothing may be placed in front of it
                        if is_directive_stmt(item) && i[..n].iter().all(is_directive_stmt) {
                            if j >= o.len() || self.embed(item, &o[j], &format!("{path}[{n}]")).is_err() {
                                return Err(format!(
                                    "{path}[{n}]: a statement was placed in front of the directive prologue"
                                ));
                            }
                            j += 1;
                            continue;
                        }
                        loop {
                            if j >= o.len() {
                                return Err(format!("{path}[{n}]: statement missing from the output ({})", ty(item)));
                            }
                            match self.embed(item, &o[j], &format!("{path}[{n}]")) {
                                Ok(()) => {
                                    j += 1;
                                    break;
                                }
                                Err(e) => {
                                    if allowed_generated(&o[j]) {
                                        j += 1;
                                        continue;
                                    }
                                    return Err(e);
                                }
                            }
                        }
                    }
                    while j < o.len() {
                        if !allowed_generated(&o[j]) {
                            return Err(format!("{path}[{j}]: unexpected extra statement in the output ({})", ty(&o[j])));
                        }
                        j += 1;
                    }
                    return Ok(());
                }
                if i.len() != o.len() {
                    return Err(format!("{path}: list length {} became {}", i.len(), o.len()));
                }
                for (n, (a, b)) in i.iter().zip(o.iter()).enumerate() {
                    self.embed(a, b, &format!("{path}[{n}]"))?;
                }
                Ok(())
            }
            (a, b) => {
                if a == b {
                    Ok(())
                } else {
                    Err(format!("{path}: {a} became {b}"))
                }
            }
        }
    }

    fn embed_define_component(&self, inp: &Value, out: &Value, path: &str) -> Result<(), String> {
        self.embed(&inp["callee"], &out["callee"], &format!("{path}.callee"))?;
        self.embed(&inp["typeArguments"], &out["typeArguments"], &format!("{path}.typeArguments"))?;
        let ia = inp["arguments"].as_array().cloned().unwrap_or_default();
        let oa = out["arguments"].as_array().cloned().unwrap_or_default();
        if oa.len() < ia.len() || oa.len() > ia.len().max(2) {
            return Err(format!("{path}.arguments: length {} became {}", ia.len(), oa.len()));
        }
        for (n, a) in ia.iter().enumerate() {
            let p = format!("{path}.arguments[{n}]");
            if n == 1 && a["spread"].is_null() {
                let ie = &a["expression"];
                let oe = &oa[1]["expression"];
                if ty(ie) == "ObjectExpression" && ty(oe) == "ObjectExpression" {
                    // input properties embed in order; extras must be props / emits / name
                    let ip = ie["properties"].as_array().cloned().unwrap_or_default();
                    let op = oe["properties"].as_array().cloned().unwrap_or_default();
                    let mut j = 0;
                    for (m, prop) in ip.iter().enumerate() {
                        loop {
                            if j >= op.len() {
                                return Err(format!("{p}.properties[{m}]: option missing from the output"));
                            }
                            if self.embed(prop, &op[j], &format!("{p}.properties[{m}]")).is_ok() {
                                j += 1;
                                break;
                            }
                            if injected_option(&op[j]) {
                                j += 1;
                                continue;
                            }
                            return Err(format!("{p}.properties[{m}]: option changed"));
                        }
                    }
                    while j < op.len() {
                        if !injected_option(&op[j]) {
                            return Err(format!("{p}.properties[{j}]: unexpected extra option"));
                        }
                        j += 1;
                    }
                    continue;
                }
                if ty(oe) == "ObjectExpression" && ty(ie) != "ObjectExpression" {
                    // wrapped: { injected..., ...original }
                    let op = oe["properties"].as_array().cloned().unwrap_or_default();
                    let mut found = false;
                    for q in &op {
                        if ty(q) == "SpreadElement" {
                            self.embed(ie, &q["arguments"], &format!("{p}(spread)"))?;
                            found = true;
                        } else if !injected_option(q) {
                            return Err(format!("{p}: unexpected option next to the spread"));
                        }
                    }
                    if !found {
                        return Err(format!("{p}: original options expression lost"));
                    }
                    continue;
                }
            }
            self.embed(a, &oa[n], &p)?;
        }
        if oa.len() > ia.len() {
            // appended options object: only injected keys
            let extra = &oa[ia.len()]["expression"];
            if ty(extra) != "ObjectExpression"
                || !extra["properties"].as_array().map(|ps| ps.iter().all(injected_option)).unwrap_or(false)
            {
                return Err(format!("{path}.arguments: unexpected extra argument"));
            }
        }
        Ok(())
    }
}

fn injected_option(prop: &Value) -> bool {
    if ty(prop) != "KeyValueProperty" {
        return false;
    }
    matches!(
        prop["key"]["value"].as_str(),
        Some("props") | Some("emits") | Some("name")
    )
}

/// C12: the optimize=true output may differ from the optimize=false output only by hint
/// arguments (positions 4-5 of a vnode call: a numeric patch flag and an array of string
/// literals) and by a trailing `_: <number>` entry of slot objects.
pub fn only_hints_differ(on: &Value, off: &Value, path: &str) -> Result<(), String> {
    match (on, off) {
        (Value::Object(a), Value::Object(b)) => {
            if ty(on) != ty(off) {
                return Err(format!("{path}: node type {:?} vs {:?}", ty(on), ty(off)));
            }
            for (k, av) in a {
                if SKIP_KEYS.contains(&k.as_str()) {
                    continue;
                }
                let bv = b.get(k).unwrap_or(&Value::Null);
                only_hints_differ(av, bv, &format!("{path}.{k}"))?;
            }
            Ok(())
        }
        (Value::Array(a), Value::Array(b)) => {
            if a.len() == b.len() {
                for (i, (x, y)) in a.iter().zip(b.iter()).enumerate() {
                    only_hints_differ(x, y, &format!("{path}[{i}]"))?;
                }
                return Ok(());
            }
            let last = path.rsplit('.').next().unwrap_or("");
            if last == "arguments" && b.len() == 3 && (a.len() == 4 || a.len() == 5) {
                for (i, (x, y)) in a.iter().zip(b.iter()).enumerate() {
                    only_hints_differ(x, y, &format!("{path}[{i}]"))?;
                }
                let flag = &a[3]["expression"];
                if ty(flag) != "NumericLiteral" {
                    return Err(format!("{path}[3]: extra argument is not a numeric patch flag"));
                }
                if a.len() == 5 {
                    let dp = &a[4]["expression"];
                    let ok = ty(dp) == "ArrayExpression"
                        && dp["elements"]
                            .as_array()
                            .map(|es| es.iter().all(|e| ty(&e["expression"]) == "StringLiteral"))
                            .unwrap_or(false);
                    if !ok {
                        return Err(format!("{path}[4]: extra argument is not a list of prop names"));
                    }
                }
                return Ok(());
            }
            if last == "properties" && a.len() == b.len() + 1 {
                for (i, (x, y)) in a.iter().zip(b.iter()).enumerate() {
                    only_hints_differ(x, y, &format!("{path}[{i}]"))?;
                }
                let extra = &a[b.len()];
                if ty(extra) == "KeyValueProperty"
                    && extra["key"]["value"].as_str() == Some("_")
                    && ty(&extra["value"]) == "NumericLiteral"
                {
                    return Ok(());
                }
                return Err(format!("{path}: extra property is not the `_` slot flag"));
            }
            Err(format!("{path}: list length {} vs {}", a.len(), b.len()))
        }
        (x, y) => {
            if x == y {
                Ok(())
            } else {
                Err(format!("{path}: {x} vs {y}"))
            }
        }
    }
}


fn contains_jsx(v: &Value) -> bool {
    match v {
        Value::Object(o) => {
            if is_jsx_expr(v) {
                return true;
            }
            o.values().any(contains_jsx)
        }
        Value::Array(a) => a.iter().any(contains_jsx),
        _ => false,
    }
}


/// `"use strict";`-like statement (possibly wrapped as a module item)
fn is_directive_stmt(v: &Value) -> bool {
    ty(v) == "ExpressionStatement" && ty(&v["expression"]) == "StringLiteral"
}
